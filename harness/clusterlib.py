"""Cluster-level machinery shared by C01 C02 C07 C08 C13 C16: configurations, TLC behaviour generation
(Cluster.tla), replay of behaviours into SimCluster with projection comparison (conformance), random schedule
drivers, and the TLC monitor (ClusterMon.tla) over recorded implementation traces."""
import json
import os
import random

import vlib
from vlib import MachineryFailure

SYNC_ALL = ('STRICT', 'LIST', 'TIMEOUT', 'CORE', 'USER')


class Config:
    """One cluster configuration = constants of Cluster.tla + options of the real instances."""

    def __init__(self, n=2, core=(), sync=('STRICT',), auto_fence=False, fail='CONTINUE', t=2, sync_ticks=3,
                 crash=0, restart=0, cut=0, user=0, conflict=0, slow=(), fix_f1=True, fix_f5=True, hold=False, rounds=6, k=8, mismatch=(), mm_opt='starting_strategy', name=None):
        self.n, self.core, self.sync = n, tuple(core), tuple(sync)
        self.auto_fence, self.fail, self.t, self.sync_ticks = auto_fence, fail, t, sync_ticks
        self.crash, self.restart, self.cut, self.user = crash, restart, cut, user
        self.conflict = conflict
        self.slow = tuple(slow)
        self.fix_f1, self.hold, self.rounds, self.k = fix_f1, hold, rounds, k
        self.fix_f5 = fix_f5
        self.mismatch = tuple(mismatch)
        self.mm_opt = mm_opt
        # what supvisors.options.check_options does to the raw options
        eff = [s for s in self.sync if not (s == 'CORE' and not self.core)]
        self.eff_sync = tuple(eff)
        self.eff_fail = 'CONTINUE' if 'TIMEOUT' in eff else fail
        self.name = name or self.label()

    def label(self):
        return (f'N{self.n}-{"+".join(self.sync)}-core{"".join(map(str, self.core)) or "0"}-'
                f'{"fence" if self.auto_fence else "nofence"}-{self.fail}-T{self.t}-mm{"".join(map(str, self.mismatch)) or 0}'
                f'{self.mm_opt[:4] if self.mismatch else ""}-c{self.crash}r{self.restart}'
                f'k{self.cut}u{self.user}-slow{len(self.slow)}{"-hold" if self.hold else ""}')

    def tla_set(self, xs, strings=False):
        if strings:
            return '{' + ', '.join(f'"{x}"' for x in xs) + '}'
        return '{' + ', '.join(str(x) for x in xs) + '}'

    def write_cfg(self, path, spec='Spec', d=0, invariants=(), properties=(), constraint=True, view=True):
        slow = '{' + ', '.join(str(10 * a + b) for a, b in self.slow) + '}'
        lines = [f'SPECIFICATION {spec}', 'CONSTANTS', f'  N = {self.n}', f'  Core = {self.tla_set(self.core)}',
                 f'  Sync = {self.tla_set(self.eff_sync, True)}',
                 f'  AutoFence = {"TRUE" if self.auto_fence else "FALSE"}', f'  FailStrat = "{self.eff_fail}"',
                 f'  T = {self.t}', f'  SyncTicks = {self.sync_ticks}', f'  MaxCrash = {self.crash}',
                 f'  MaxRestart = {self.restart}', f'  MaxCut = {self.cut}', f'  MaxUser = {self.user}',
                 f'  MaxConflict = {self.conflict}',
                 f'  SlowQ = {slow}', '  Checkpoint = "COLD"', f'  FixF1 = {"TRUE" if self.fix_f1 else "FALSE"}',
                 f'  FixF5 = {"TRUE" if self.fix_f5 else "FALSE"}',
                 f'  HoldDist = {"TRUE" if self.hold else "FALSE"}', f'  Mismatch = {self.tla_set(self.mismatch)}', f'  MaxRound = {self.rounds}', f'  D = {d}', f'  K = {self.k}']
        if view:
            lines.append('VIEW View')
        if constraint:
            lines.append('CONSTRAINT Bound')
        for i in invariants:
            lines.append(f'INVARIANT {i}')
        for p in properties:
            lines.append(f'PROPERTY {p}')
        with open(path, 'w') as f:
            f.write('\n'.join(lines) + '\n')

    def options(self):
        o = {'synchro_options': ','.join(self.sync), 'auto_fence': 'true' if self.auto_fence else 'false',
             'supvisors_failure_strategy': self.fail, 'inactivity_ticks': str(self.t),
             'synchro_timeout': str(self.sync_ticks * 5), 'conciliation_strategy': 'USER'}
        if self.core:
            o['core_identifiers'] = ','.join(f'n{i}' for i in self.core)
        return o

    def mismatch_options(self):
        """One of the four options compared during the handshake differs on the mismatching instances."""
        return {'starting_strategy': {'starting_strategy': 'LESS_LOADED'},
                'auto_fence': {'auto_fence': 'false' if self.auto_fence else 'true'},
                'conciliation_strategy': {'conciliation_strategy': 'STOP'},
                'supvisors_failure_strategy': {'supvisors_failure_strategy': 'RESYNC' if self.fail != 'RESYNC'
                                               else 'CONTINUE'}}[self.mm_opt]

    def layout(self, programs=None):
        return {f'n{i}': {'host': i, 'port': 60000 + i, 'programs': list(programs or []),
                          'options': (self.mismatch_options() if i in self.mismatch else {})}
                for i in range(1, self.n + 1)}


def make_cluster(cfg, programs=None, rules_xml=None):
    from simcluster import Cluster
    return Cluster(cfg.layout(programs), options=cfg.options(), rules_xml=rules_xml)


# ---------------------------------------------------------------------------------------------------------------
# projection of the real code (conformance only - internal attributes are read here, never for a verdict)


def project(c, n_inst):
    out = {}
    for i in range(1, n_inst + 1):
        name = f'n{i}'
        node = c.nodes[name]
        if not node.alive:
            out[i] = {'alive': False}
            continue
        s = node.supvisors
        ctx = s.context
        idx = {c.nodes[f'n{j}'].identifier: j for j in range(1, n_inst + 1)}
        m = s.state_modes.master_identifier
        p = {'alive': True, 'fsm': s.fsm.state.name, 'master': idx.get(m, 0) if m else 0,
             'inst': [None] * n_inst, 'seen': [0] * n_inst, 'sm': [None] * n_inst, 'ql': [0] * n_inst,
             'tick': s.listener.counter, 'mark': bool(s.state_modes.update_mark)}
        for ident, st in ctx.instances.items():
            j = idx[ident]
            p['inst'][j - 1] = st.state.name
            p['seen'][j - 1] = st.times.local_sequence_counter
        for ident, smo in s.state_modes.instance_state_modes.items():
            j = idx[ident]
            mm = smo.master_identifier
            p['sm'][j - 1] = [smo.state.name, idx.get(mm, 0) if mm else 0]
        for dst, proxy in c.proxies(name).items():
            p['ql'][int(dst[1:]) - 1] = proxy.queue.qsize()
        out[i] = p
    return out


def compare(model_p, real_p, n_inst):
    """model_p: Proj of Cluster.tla as JSON (list indexed by instance - 1). Returns '' or a description."""
    for i in range(1, n_inst + 1):
        mp = model_p[i - 1]
        rp = real_p[i]
        if not mp['alive']:
            if rp['alive']:
                return f'n{i}: model dead, code alive'
            continue
        if not rp['alive']:
            return f'n{i}: model alive, code dead'
        for k in ('fsm', 'master', 'tick', 'mark'):
            if mp[k] != rp[k]:
                return f'n{i}.{k}: model={mp[k]} code={rp[k]}'
        for k in ('inst', 'seen', 'ql'):
            if list(mp[k]) != list(rp[k]):
                return f'n{i}.{k}: model={list(mp[k])} code={list(rp[k])}'
        for j in range(1, n_inst + 1):
            if j != i and list(mp['sm'][j - 1]) != list(rp['sm'][j - 1]):
                return f'n{i}.sm[{j}]: model={mp["sm"][j - 1]} code={rp["sm"][j - 1]}'
    return ''


# ---------------------------------------------------------------------------------------------------------------
# TLC behaviours -> real code


def tlc_behaviours(cfg, num, depth, seed, workers=8, timeout=600):
    """Random behaviours of Cluster.tla (TLC -simulate): list of [ {a: [...], p: Proj}, ... ]."""
    sc = vlib.scratch()
    path = os.path.join(sc, f'sim_{cfg.name}.cfg')
    cfg.write_cfg(path, spec='SpecH', d=depth, invariants=('SimLog',), constraint=False, view=False)
    per = max(1, num // workers)
    r = vlib.run_tlc('Cluster', path, workers=workers, simulate=f'num={per}', depth=depth + 1, seed=seed,
                     timeout=timeout)
    if r.violated or (not r.ok and not r.timed_out):
        raise MachineryFailure(f'Cluster simulate {cfg.name}: {r.error_text[:2000]}')
    seen = set()
    out = []
    for line in r.stdout.splitlines():
        if line.startswith('"B '):
            if line in seen:
                continue
            seen.add(line)
            out.append(json.loads(json.loads(line)[2:]))
    return out, r


def act_to_schedule(a):
    """Map a model action label to a SimCluster scheduler action."""
    k = a[0]
    n = lambda i: f'n{i}'
    if k == 'Tick':
        return ['tick', n(a[1])]
    if k in ('Deliver', 'SendFail', 'Filtered', 'Check', 'CheckFail', 'ReqFail', 'ReqAll'):
        return ['proxy', n(a[1]), n(a[2])]
    if k in ('Notify', 'Stop'):
        return ['proxy', n(a[1]), n(a[1])]
    if k == 'Crash':
        return ['crash', n(a[1])]
    if k == 'Boot':
        return ['boot', n(a[1])]
    if k == 'Cut':
        return ['cut', n(a[1]), n(a[2])]
    if k == 'Heal':
        return ['heal', n(a[1]), n(a[2])]
    if k == 'User':
        return ['rpc', n(a[1]), 'restart' if a[2] == 'RESTART_ALL' else 'shutdown', [], 'supvisors']
    if k == 'EndSync':
        return ['rpc', n(a[1]), 'end_sync', [n(a[2])] if a[2] else [], 'supvisors']
    if k in ('Release', 'Conflict'):
        return ['noop']
    raise MachineryFailure(f'unknown model action {a}')


def replay_behaviour(cfg, beh, record=True):
    """Replay one model behaviour on real cores. Returns (steps_done, drift_text, recorder)."""
    from recorder import Driver
    c = make_cluster(cfg)
    c.auto_reboot = False
    d = Driver(c)
    drift = ''
    done = 0
    try:
        for nme in c.nodes:
            d.boot(nme)
        for st in beh:
            sch = act_to_schedule(st['a'])
            if sch[0] == 'noop':
                done += 1
                continue
            if sch[0] == 'proxy' and c.head_kind(sch[1], sch[2]) is None:
                drift = f'step {done} {st["a"]}: the real FIFO {sch[1]}->{sch[2]} is empty'
                break
            d.replay([sch])
            done += 1
            diff = compare(st['p'], project(c, cfg.n), cfg.n)
            if diff:
                drift = f'step {done} after {st["a"]}: {diff}'
                break
    finally:
        c.close()
    return done, drift, d.rec


# ---------------------------------------------------------------------------------------------------------------
# implementation traces -> ClusterMon


def _idx(name):
    return int(name[1:]) if name else 0


def _obs(o, n_inst):
    return {'alive': bool(o['alive']), 'inc': int(o.get('inc', 0)), 'fsm': o['fsm'],
            'master': _idx(o.get('master', '')), 'tick': int(o.get('tick', 0)),
            'inst': [o['inst'].get(f'n{j}', 'STOPPED') for j in range(1, n_inst + 1)],
            'rem': [int(o.get('rem', {}).get(f'n{j}', 0)) for j in range(1, n_inst + 1)]}


def mon_trace(tid, rec, cfg, fair, ended):
    """Recorder steps -> the JSON shape ClusterMon.tla reads."""
    n = cfg.n
    dead = {'alive': False, 'inc': 0, 'fsm': 'DEAD', 'master': 0, 'tick': 0, 'inst': ['STOPPED'] * n, 'rem': [0] * n}
    steps = []
    prev = [dict(dead) for _ in range(n)]
    for s in rec.steps:
        if any('step did not terminate' in e for e in s['err']):
            # a step that never came back: what it flooded before being interrupted is not analysed
            s = dict(s, pubs=s['pubs'][:20], ipubs=s['ipubs'][:20], push=s['push'][:20], rpcfail=s['rpcfail'][:20],
                     nfail=s.get('nfail', [])[:20])
        post = [_obs(s['st'][f'n{i}'], n) for i in range(1, n + 1)]
        ipubs = [[_idx(a), _idx(b), st] for a, b, st in s['ipubs']]
        # instance state changes that are not published (e.g. CHECKING -> CHECKED): complete from the status RPC
        last = {}
        for a, b, st in ipubs:
            last[(a, b)] = st
        for i in range(1, n + 1):
            if not post[i - 1]['alive']:
                continue
            for j in range(1, n + 1):
                cur = last.get((i, j), prev[i - 1]['inst'][j - 1] if prev[i - 1]['alive'] and s['a'] != 'Boot'
                               else 'STOPPED')
                if cur != post[i - 1]['inst'][j - 1]:
                    ipubs.append([i, j, post[i - 1]['inst'][j - 1]])
        kind = s.get('k', '')
        if s['a'] == 'Proxy':
            kk = kind.split(':')
            if kk[0] == 'PUBLICATION':
                kind = {'0': 'TICK', '7': 'STATE', '1': 'PROCESS'}.get(kk[1], 'PUB' + kk[1])
            elif kk[0] == 'NOTIFICATION':
                kind = 'NOTIF_' + {'0': 'IDENT', '1': 'AUTH', '2': 'STATE', '3': 'ALLINFO', '4': 'DISCOVERY',
                                   '5': 'FAILURE'}.get(kk[1], kk[1])
            else:
                kind = 'REQ' + kk[1]
        d = _idx(s.get('d', ''))
        if s['a'] == 'Proxy' and kind.startswith('NOTIF_'):
            subj = s.get('k', '').split(':')[2] if s.get('k', '').count(':') >= 2 else ''
            d = _idx(subj) if subj in rec.c.nodes else 0
        if s['a'] == 'Rpc' and kind == 'end_sync':
            args = [x for x in rec.schedule if x[0] == 'rpc']
            d = 0
        steps.append({
            'a': s['a'], 'n': _idx(s['n']), 'd': d, 'k': kind, 'post': post,
            'pubs': [{'n': _idx(p['n']), 'fsm': p['fsm'], 'master': _idx(p['master']), 'mstate': p['mstate'],
                      'ist': [p['ist'].get(f'n{j}', 'STOPPED') for j in range(1, n + 1)],
                      'decl': [_idx(p['decl'].get(f'n{j}', '')) for j in range(1, n + 1)]} for p in s['pubs']],
            'ipubs': ipubs,
            'push': [[_idx(a), _idx(b), bool(iso), typ, int(what)] for a, b, typ, what, arg, iso in s['push']],
            'fails': [[_idx(a), _idx(b)] for a, b in s['rpcfail']],
            'err': bool(s['err']), 'iso': bool(s.get('iso', False)), 'snapchg': bool(s.get('snapchg', False)),
            'user': bool(s.get('user', False)),
            'nfail': [[_idx(a), _idx(b)] for a, b in s.get('nfail', []) if b in rec.c.nodes],
            'nonadm': bool(s.get('nonadm', False)), 'procchg': bool(s.get('procchg', False)),
            'hang': any('step did not terminate' in e for e in s['err'])})
        if s['a'] == 'Rpc' and s.get('k') == 'end_sync' and s.get('arg'):
            steps[-1]['d'] = _idx(s['arg'])
        prev = post
    return {'id': tid, 'init': [dict(dead) for _ in range(n)], 'steps': steps, 'fair': bool(fair),
            'ended': bool(ended)}


def run_monitor(cfg, traces, label='mon', workers=4, chunk=120):
    """traces: list of mon_trace dicts (same cfg). Returns (failures, terminals, last TLC result): lists of dicts
    {t, s, f}. Large sets are judged chunk by chunk (bounded JSON size / TLC heap; ids are the traces' own)."""
    if not traces:
        return [], [], None
    sc = vlib.scratch()
    cp = os.path.join(sc, f'{label}_{cfg.name}.cfg')
    with open(cp, 'w') as f:
        f.write('\n'.join(['SPECIFICATION Spec', 'CONSTANTS', f'  N = {cfg.n}',
                           f'  Core = {cfg.tla_set(cfg.core)}', f'  Sync = {cfg.tla_set(cfg.eff_sync, True)}',
                           f'  AutoFence = {"TRUE" if cfg.auto_fence else "FALSE"}',
                           f'  FailStrat = "{cfg.eff_fail}"', f'  T = {cfg.t}',
                           f'  Mismatch = {cfg.tla_set(cfg.mismatch)}']) + '\n')
    V, E, r = [], [], None
    many = len(traces) > chunk
    for lo in range(0, len(traces), chunk):
        part = traces[lo:lo + chunk]
        tf = os.path.join(sc, f'{label}_{cfg.name}_{lo}.json')
        with open(tf, 'w') as f:
            json.dump(part, f)
        r = vlib.run_tlc('ClusterMon', cp, workers=8 if many else workers, env={'TRACE_FILE': tf}, timeout=3000,
                         heap='6g')
        if many:
            os.unlink(tf)
        if not r.ok:
            raise MachineryFailure(f'ClusterMon {cfg.name}: rc={r.rc} timed_out={r.timed_out} '
                                   f'{r.error_text[:3000] or r.stdout[-1500:]}')
        done = {int(json.loads(l)[2:]) for l in r.stdout.splitlines() if l.startswith('"D ')}
        if done != {t['id'] for t in part}:
            raise MachineryFailure(f'ClusterMon {cfg.name}: {len(done)} traces completed out of {len(part)}')
        V += vlib.tlc_prints(r.stdout, 'V ')
        E += vlib.tlc_prints(r.stdout, 'E ')
    return V, E, r


# ---------------------------------------------------------------------------------------------------------------
# drivers on the real code


def fair_tail(d, cfg, rounds):
    """Disturbances stop: heal every partition, then `rounds` fair rounds (every live instance ticks, every FIFO
    is drained)."""
    c = d.c
    for a, b in sorted(c.cuts):
        d.heal(a, b)
    for _ in range(rounds):
        d.fair_round()


def replay_and_settle(cfg, beh, tail_rounds):
    """Replay one model behaviour (conformance compared at each step), then the fair tail. Returns
    (recorder, drift_text, ended)."""
    from recorder import Driver
    c = make_cluster(cfg)
    d = Driver(c)
    drift = ''
    ended = False
    try:
        for nme in c.nodes:
            d.boot(nme)
        k = 0
        for st in beh:
            sch = act_to_schedule(st['a'])
            k += 1
            if sch[0] == 'noop':
                continue
            if st['a'][0] == 'User':
                ended = True
            if sch[0] == 'proxy' and c.head_kind(sch[1], sch[2]) is None:
                drift = f'step {k} {st["a"]}: the real FIFO {sch[1]}->{sch[2]} is empty'
                break
            d.replay([sch])
            diff = compare(st['p'], project(c, cfg.n), cfg.n)
            if diff:
                drift = f'step {k} after {st["a"]}: {diff}'
                break
        if any(o == 'restart' or o == 'shutdown' for nd in c.nodes.values() for o in nd.sup_orders):
            ended = True
        fair_tail(d, cfg, tail_rounds)
    finally:
        c.close()
    return d.rec, drift, ended


def random_run(cfg, seed, steps, tail_rounds, p_delay=0.3, faults=True, inject=False):
    """Seeded random schedule on the real code, independent of the model: ticks in random order, deliveries that
    may lag, crashes / restarts / partitions within the budgets of cfg, optional adversarial injections
    (duplicated and stale handshake notifications); then the fair tail."""
    from recorder import Driver
    rnd = random.Random(seed)
    c = make_cluster(cfg)
    d = Driver(c)
    names = list(c.nodes)
    budget = {'crash': cfg.crash, 'restart': cfg.restart, 'cut': cfg.cut, 'user': cfg.user}
    ended = False
    saved = []      # notifications seen on local FIFOs (for stale / duplicate injection)
    try:
        for nme in names:
            d.boot(nme)
        ticked = set()
        for _ in range(steps):
            live = [n for n in names if c.nodes[n].alive]
            pend = c.pending()
            x = rnd.random()
            if faults and x < 0.02 and budget['crash'] > 0 and len(live) > 1:
                budget['crash'] -= 1
                d.crash(rnd.choice(live))
                continue
            if faults and x < 0.05 and budget['restart'] > 0 and len(live) < len(names):
                budget['restart'] -= 1
                d.boot(rnd.choice([n for n in names if not c.nodes[n].alive]))
                continue
            if faults and x < 0.07 and budget['cut'] > 0 and len(names) > 1:
                budget['cut'] -= 1
                a, b = rnd.sample(names, 2)
                d.cut(a, b)
                if rnd.random() < 0.6 and budget['cut'] > 0:      # a full partition costs two directed cuts
                    budget['cut'] -= 1
                    d.cut(b, a)
                continue
            if faults and x < 0.09 and c.cuts:
                a, b = rnd.choice(sorted(c.cuts))
                d.heal(a, b)
                continue
            if x < 0.10 and budget['user'] > 0 and live:
                budget['user'] -= 1
                n = rnd.choice(live)
                m = rnd.choice(['restart', 'shutdown', 'end_sync'])
                if m == 'end_sync':
                    arg = rnd.choice([[], [rnd.choice(names)]])
                    out = d.rpc(n, 'end_sync', *arg)
                    if arg:
                        d.rec.steps[-1]['arg'] = arg[0]
                else:
                    out = d.rpc(n, m)
                    if out and out[0] == 'ok':
                        ended = True
                continue
            if inject and x < 0.14 and saved:
                # adversarial: re-deliver an old handshake notification (duplicate / stale epoch)
                n, item = rnd.choice(saved)
                if c.nodes[n].alive:
                    p = c.proxies(n).get(n)
                    if p is not None:
                        p.queue.put_nowait(item)
                        d.rec.schedule.append(['inject', n])
                continue
            # deliveries: eager with probability 1 - p_delay
            if pend and (rnd.random() > p_delay or not live):
                src, dst = rnd.choice(pend)
                if inject and src == dst:
                    p = c.proxies(src).get(dst)
                    # handshake notifications only (IDENTIFICATION, AUTHORIZATION, STATE, ALL_INFO)
                    if p is not None and p.queue.qsize() and p.queue.queue[0][0].name == 'NOTIFICATION' \
                            and p.queue.queue[0][1][1][0] in (0, 1, 2, 3) and len(saved) < 50:
                        saved.append((src, p.queue.queue[0]))
                d.proxy(src, dst)
                continue
            cand = [n for n in live if n not in ticked]
            if not cand:
                ticked = set()
                cand = live
            if cand:
                n = rnd.choice(cand)
                ticked.add(n)
                d.tick(n)
        if any(nd.sup_orders for nd in c.nodes.values()):
            ended = True
        fair_tail(d, cfg, tail_rounds)
    finally:
        c.close()
    return d.rec, ended


# ---------------------------------------------------------------------------------------------------------------
# scenario families shared by several checks

HOLD_RULES = ('<?xml version="1.0" encoding="UTF-8" standalone="no"?><root><application name="hold">'
              '<start_sequence>1</start_sequence><programs><program name="h1"><identifiers>n2</identifiers>'
              '<start_sequence>1</start_sequence></program></programs></application></root>')


def stealth_restart_scenarios(tier, seed, tail):
    """A peer restarts quicker than the detection delay after having sent a ticks (a = 1..4, also a second restart in
    a row); the observer has run for more than inactivity_ticks ticks. The first TICK of the new incarnation carries
    a lower counter whenever a >= 2: the restart must then be noticed at the observer's next tick."""
    from recorder import Driver
    traces, recs = [], {}
    k = 0
    cfgs = [Config(n=2, sync=('TIMEOUT',)), Config(n=3, sync=('TIMEOUT',), auto_fence=True, t=3)]
    out = []
    for cfg in cfgs:
        traces, recs = [], {}
        names = [f'n{i}' for i in range(1, cfg.n + 1)]
        for a in (1, 2, 3, 4):
            for twice in (False, True):
                for first in ('peer', 'observer'):
                    c = make_cluster(cfg)
                    d = Driver(c)
                    try:
                        for n in names[:-1]:
                            d.boot(n)
                        for _ in range(cfg.t + 3):
                            for n in names[:-1]:
                                d.tick(n)
                                d.drain()
                        peer = names[-1]
                        d.boot(peer)
                        for _ in range(a):
                            d.fair_round()
                        for _ in range(2 if twice else 1):
                            d.crash(peer)
                            d.boot(peer)
                            # the new incarnation ticks before / after the observers' next tick
                            order = [peer] + names[:-1] if first == 'peer' else names[:-1] + [peer]
                            for n in order:
                                d.tick(n)
                                d.drain()
                        for _ in range(6):
                            d.fair_round()
                        fair_tail(d, cfg, tail)
                    finally:
                        c.close()
                    traces.append(mon_trace(k, d.rec, cfg, True, False))
                    recs[k] = d.rec
                    k += 1
        out.append((cfg, traces, recs))
    return out


def hold_distribution_scenarios(tier, seed, tail):
    """The Master is held in DISTRIBUTION by a start that never ends; a late joiner completes its handshake (CHECKED,
    not activated in DISTRIBUTION) and is then lost in different ways and at different moments, together with or
    without a RUNNING peer."""
    from recorder import Driver
    cfg = Config(n=3, sync=('TIMEOUT',))
    traces, recs = [], {}
    k = 0
    variants = [(how, when, also) for how in ('crash', 'cut', 'cutin') for when in (1, 2, 3) for also in (False, True)]
    if tier == 'quick':
        variants = variants[::2]
    for how, when, also in variants:
        c = make_cluster(cfg, programs=[{'name': 'h1', 'groups': ['hold'], 'startsecs': 100000}], rules_xml=HOLD_RULES)
        d = Driver(c)
        try:
            d.boot('n1')
            d.boot('n2')
            for _ in range(8):
                for n in ('n1', 'n2'):
                    d.tick(n)
                    d.drain()
            d.boot('n3')
            for _ in range(when):
                d.fair_round()
            if how == 'crash':
                d.crash('n3')
            elif how == 'cut':
                d.cut('n3', 'n1')
                d.cut('n1', 'n3')
            else:
                d.cut('n3', 'n1')          # only the ticks of n3 towards n1 are lost
            if also:
                d.crash('n2')
            for _ in range(8):
                d.fair_round()
            fair_tail(d, cfg, tail)
        finally:
            c.close()
        traces.append(mon_trace(k, d.rec, cfg, False, False))
        recs[k] = d.rec
        k += 1
    return [(cfg, traces, recs)]
