"""Shared machinery: TLC runner/parsers, evidence writer, known findings, verdict plumbing."""
import json
import os
import re
import shutil
import subprocess
import sys
import tempfile
import time

VERIF = os.path.dirname(os.path.dirname(os.path.abspath(__file__)))
SPEC = os.path.join(VERIF, 'spec')
# outputs (evidence/, replays/) go under /verif unless a mutation-evaluation run redirects them
OUT = os.environ.get('VERIF_OUT') or VERIF
JAR = '/opt/veriftools/tla/tla2tools.jar:/opt/veriftools/tla/CommunityModules-deps.jar'


class MachineryFailure(Exception):
    """Anything that is not a verdict on the property: exit code 2, never a VIOLATION line."""


_SCRATCH = None


def scratch():
    global _SCRATCH
    if _SCRATCH is None:
        base = os.environ.get('VERIF_SCRATCH')
        if base:
            os.makedirs(base, exist_ok=True)
            _SCRATCH = tempfile.mkdtemp(prefix='run-', dir=base)
        else:
            _SCRATCH = tempfile.mkdtemp(prefix='verif-')
        import atexit
        atexit.register(lambda: shutil.rmtree(_SCRATCH, ignore_errors=True))
    return _SCRATCH


class TlcResult:
    def __init__(self):
        self.ok = False
        self.generated = 0
        self.distinct = 0
        self.depth = 0
        self.violated = []       # names of violated invariants / properties
        self.error_text = ''
        self.stdout = ''
        self.coverage = {}       # action name -> (distinct, total)
        self.wall = 0.0
        self.prints = []         # PrintT lines (raw)
        self.trace_text = ''     # counterexample text if any
        self.timed_out = False


_COV = re.compile(r'^<(\w+) line \d+, col \d+ to line \d+, col \d+ of module (\w+)>: (\d+):(\d+)')


def run_tlc(module, cfg, workers=None, simulate=None, depth=None, extra=None, timeout=1800, env=None,
            coverage=False, deadlock=False, seed=None, cwd=None, continue_=False, dfs_queue=False, heap=None):
    """Run TLC on spec/<module>.tla with spec/<cfg>. Returns TlcResult. PrintT output lines are collected."""
    cwd = cwd or SPEC
    meta = tempfile.mkdtemp(prefix='meta-', dir=scratch())
    cmd = ['java', '-XX:+UseParallelGC']
    if heap:
        cmd.append(f'-Xmx{heap}')
    if dfs_queue:
        cmd.append('-Dtlc2.tool.queue.IStateQueue=StateDeque')
    cmd += ['-cp', JAR, 'tlc2.TLC', '-metadir', meta, '-noGenerateSpecTE',
            '-workers', str(workers or os.cpu_count() or 4), '-config', cfg]
    if not deadlock:
        cmd.append('-deadlock')      # -deadlock DISABLES deadlock checking
    if coverage:
        cmd += ['-coverage', '1']
    if continue_:
        cmd.append('-continue')
    if simulate:
        cmd += ['-simulate', simulate]
    if depth:
        cmd += ['-depth', str(depth)]
    if seed is not None:
        cmd += ['-seed', str(seed)]
    if extra:
        cmd += extra
    cmd.append(module)
    e = dict(os.environ)
    if env:
        e.update(env)
    t0 = time.time()
    r = TlcResult()
    try:
        p = subprocess.run(cmd, cwd=cwd, env=e, stdout=subprocess.PIPE, stderr=subprocess.STDOUT, timeout=timeout,
                           text=True, errors='replace')
        out = p.stdout
        rc = p.returncode
    except subprocess.TimeoutExpired as ex:
        out = (ex.stdout or b'').decode(errors='replace') if isinstance(ex.stdout, bytes) else (ex.stdout or '')
        rc = -9
        r.timed_out = True
        subprocess.run(['pkill', '-f', meta], check=False)
    r.wall = time.time() - t0
    r.stdout = out
    shutil.rmtree(meta, ignore_errors=True)
    for line in out.splitlines():
        m = re.search(r'(\d+) states generated, (\d+) distinct states found', line)
        if m:
            r.generated, r.distinct = int(m.group(1)), int(m.group(2))
        m = re.search(r'The depth of the complete state graph search is (\d+)', line)
        if m:
            r.depth = int(m.group(1))
        m = re.search(r'Invariant (\w+) is violated', line)
        if m:
            r.violated.append(m.group(1))
        m = re.search(r'Action property (\w+) is violated', line)
        if m:
            r.violated.append(m.group(1))
        m = re.search(r'Temporal properties were violated', line)
        if m:
            r.violated.append('TEMPORAL')
        m = _COV.match(line)
        if m and m.group(2) == module:
            r.coverage[m.group(1)] = (int(m.group(3)), int(m.group(4)))
    if 'Error:' in out:
        idx = out.index('Error:')
        r.error_text = out[idx:idx + 3000]
    if r.violated:
        i = out.find('Error:')
        r.trace_text = out[i:i + 20000]
    r.ok = (rc == 0 and not r.violated and 'Error:' not in out)
    r.rc = rc
    return r


def tlc_prints(stdout, tag):
    """Extract the JSON payloads of lines printed as  "<tag> <json>"  by PrintT(<<"tag", ToJson(x)>>) or plain
    strings. Returns list of python objects."""
    out = []
    for line in stdout.splitlines():
        if line.startswith('"' + tag):
            # a TLA+ string printed with quotes and escaped inner quotes
            try:
                s = json.loads(line)
            except Exception:
                continue
            out.append(json.loads(s[len(tag):]))
    return out


def sany(module, cwd=None):
    p = subprocess.run(['java', '-cp', JAR, 'tla2sany.SANY', module], cwd=cwd or SPEC, stdout=subprocess.PIPE,
                       stderr=subprocess.STDOUT, text=True)
    ok = p.returncode == 0 and 'Semantic errors' not in p.stdout and 'Parse Error' not in p.stdout \
        and '*** Errors' not in p.stdout and 'Fatal' not in p.stdout
    return ok, p.stdout


# ---------------------------------------------------------------------------------------------------------------
# known findings


def load_known():
    path = os.path.join(VERIF, 'known_findings.json')
    if not os.path.exists(path):
        return {'findings': [], 'fixed': []}
    with open(path) as f:
        return json.load(f)


def known_for(pid):
    return [k for k in load_known().get('findings', []) if pid in k.get('properties', [])]


# ---------------------------------------------------------------------------------------------------------------
# verdicts / evidence


class Verdict:
    """Collects what one check run found and writes evidence + the stdout protocol."""

    def __init__(self, pid, tier, seed):
        self.pid, self.tier, self.seed = pid, tier, seed
        self.t0 = time.time()
        self.violations = []     # (what, replay_path)
        self.known_hits = {}     # finding id -> count
        self.drift = []
        self.cov = {'states': 0, 'transitions': 0, 'traces_validated_against_impl': 0, 'samples': [],
                    'evaluations': 0, 'distinct_nontrivial': 0, 'rule': '', 'exhaustive': False,
                    'tlc_runs': [], 'actions_covered': {}, 'drift': 0}
        self.assumptions = []
        self.notes = []

    def add_tlc(self, name, r, exhaustive=None):
        self.cov['states'] += r.distinct
        self.cov['transitions'] += r.generated
        self.cov['tlc_runs'].append({'name': name, 'distinct': r.distinct, 'generated': r.generated,
                                     'depth': r.depth, 'wall_s': round(r.wall, 1), 'ok': r.ok,
                                     'violated': r.violated})
        for a, (d, t) in r.coverage.items():
            self.cov['actions_covered'][f'{name}.{a}'] = t

    def sample(self, s, limit=5):
        if len(self.cov['samples']) < limit:
            self.cov['samples'].append(s)

    def violation(self, what, replay_obj):
        os.makedirs(os.path.join(OUT, 'replays'), exist_ok=True)
        import hashlib
        blob = json.dumps(replay_obj, sort_keys=True, default=str)
        h = hashlib.sha1(blob.encode()).hexdigest()[:10]
        path = os.path.join(OUT, 'replays', f'{self.pid}-{h}.json')
        with open(path, 'w') as f:
            json.dump({'property': self.pid, 'what': what, 'replay': replay_obj}, f, indent=1, default=str)
        self.violations.append((what, path))

    def known(self, finding_id, what):
        self.known_hits.setdefault(finding_id, [0, what])[0] += 1

    def classify(self, what_sig, what_text, replay_obj):
        """what_sig: dict describing the failure (keys compared with the known-finding signatures).
        A failure matching a listed finding is a KNOWN-FINDING, anything else a VIOLATION."""
        for k in known_for(self.pid):
            sig = k.get('signature')
            if not sig or not isinstance(sig, dict):
                continue          # findings recognised by a TLA+ predicate are reported by the monitors (KNOWN.<id>)
            if all(what_sig.get(a) == b or (isinstance(b, list) and what_sig.get(a) in b) for a, b in sig.items()):
                self.known(k['id'], k['what'])
                return 'known'
        self.violation(what_text, replay_obj)
        return 'violation'

    def finish(self, level='model_checking'):
        # a call into the code under test that never came back (watchdog of SimCluster) is never silent
        sim = sys.modules.get('simcluster')
        if sim is not None and sim.HUNG_TOTAL[0] and not self.violations:
            self.violation(f'{sim.HUNG_TOTAL[0]} call(s) into the code under test did not return within '
                           f'{sim.STEP_CPU_LIMIT} s of CPU (interrupted by the watchdog)', {'watchdog': sim.HUNG_TOTAL[0]})
        wall = time.time() - self.t0
        cov = self.cov
        cov['drift'] = len(self.drift)
        if self.drift:
            cov['drift_samples'] = self.drift[:5]
        if self.known_hits:
            cov['known_findings_hit'] = {k: v[0] for k, v in self.known_hits.items()}
        if not cov['samples']:
            cov['samples'] = ['(no sample recorded)']
        ev = {'property_id': self.pid, 'tier': self.tier, 'seed': self.seed, 'level': level, 'coverage': cov,
              'assumptions': self.assumptions, 'wall_s': round(wall, 2), 'violations': len(self.violations)}
        os.makedirs(os.path.join(OUT, 'evidence'), exist_ok=True)
        with open(os.path.join(OUT, 'evidence', f'{self.pid}.json'), 'w') as f:
            json.dump(ev, f, indent=1, default=str)
        for fid, (n, what) in sorted(self.known_hits.items()):
            print(f'KNOWN-FINDING: property={self.pid} {fid} {what} (hits={n})')
        for d in self.drift[:10]:
            print(f'DRIFT property={self.pid} {d}')
        seen = set()
        for what, path in self.violations:
            if path in seen:
                continue
            seen.add(path)
            print(f'VIOLATION property={self.pid} replay={path}')
            print(f'  {what}')
        print(f'{self.pid} {self.tier}: states={cov["states"]} transitions={cov["transitions"]} '
              f'impl_traces={cov["traces_validated_against_impl"]} evaluations={cov["evaluations"]} '
              f'violations={len(self.violations)} known={sum(v[0] for v in self.known_hits.values())} '
              f'drift={len(self.drift)} wall={wall:.1f}s')
        return 1 if self.violations else 0


def require_tlc_ok(r, name, allow_violations=False):
    """TLC must have run to completion (or been stopped by our own timeout in simulate mode)."""
    if r.ok:
        return
    if r.violated and allow_violations:
        return
    if r.timed_out:
        raise MachineryFailure(f'TLC {name} timed out')
    raise MachineryFailure(f'TLC {name} failed: rc={r.rc} violated={r.violated}\n{r.error_text[:3000]}')
