"""Trace recorder for cluster-level runs: one record per scheduler step, with the observable state of every node
touched by the step (read through the REAL XML-RPC interface), the Supvisors/instance status publications made
during the step (external publisher), the items pushed on proxy FIFOs and the errors seen."""
import json


def _nick(c, ident):
    return c.by_identifier.get(ident, ident or '')


class Recorder:
    def __init__(self, cluster, with_sm=True):
        self.c = cluster
        cluster.observers.append(self)
        self.steps = []
        self.cur = None
        self.obs = {n: self._dead(n) for n in cluster.nodes}
        self.with_sm = with_sm
        self.recv = {n: {} for n in cluster.nodes}     # ghost source: local tick counter at last TICK delivery
        cluster.on_ext_status = self.on_ext_status
        cluster.on_ext_instance = self.on_ext_instance
        self.schedule = []        # replayable schedule (list of [action, args...])

    # -- observation -------------------------------------------------------------------------------------------
    def _dead(self, n):
        return {'alive': False, 'inc': self.c.nodes[n].incarnation, 'fsm': 'DEAD', 'master': '', 'tick': 0,
                'inst': {p: 'STOPPED' for p in self.c.nodes}, 'sm': {}, 'jobs': [False, False], 'seen': {}}

    def observe(self, n):
        c = self.c
        node = c.nodes[n]
        if not node.alive:
            return self._dead(n)
        o = {'alive': True, 'inc': node.incarnation}
        with c.enter(n):
            rpc = node.rpc
            try:
                st = rpc.get_supvisors_state()
                o['fsm'] = st['fsm_statename']
                o['master'] = _nick(c, st['master_identifier'])
                o['jobs'] = [bool(st['starting_jobs']), bool(st['stopping_jobs'])]
                infos = rpc.get_all_instances_info()
                o['inst'] = {_nick(c, i['identifier']): i['statename'] for i in infos}
                o['seen'] = {_nick(c, i['identifier']): i['local_sequence_counter'] for i in infos}
                o['rem'] = {_nick(c, i['identifier']): i['remote_sequence_counter'] for i in infos}
                o['tick'] = node.supvisors.listener.counter
                if self.with_sm:
                    sms = rpc.get_all_instances_state_modes()
                    o['sm'] = {_nick(c, s['identifier']): [s['fsm_statename'], _nick(c, s['master_identifier'])]
                               for s in sms}
                else:
                    o['sm'] = {}
            except Exception as exc:
                c.internal_error(n, 'observe (status XML-RPC)', exc)
                return self._dead(n)
        if 'sm' not in o:
            return self._dead(n)          # the instance was interrupted by the watchdog during the observation
        return o

    # -- publisher callbacks -----------------------------------------------------------------------------------
    def on_ext_status(self, node, status):
        if self.cur is None:
            return
        c = self.c
        m = status.get('master_identifier') or ''
        ist = status.get('instance_states', {})
        peers = {}
        if node.alive or node.supvisors is not None:
            try:
                sms = node.supvisors.state_modes.instance_state_modes
                local = node.supvisors.mapper.local_identifier
                for ident, sm in sms.items():
                    if ident != local:
                        peers[_nick(c, ident)] = _nick(c, sm.master_identifier)
            except Exception:
                pass
        self.cur['pubs'].append({'n': node.name, 'fsm': status.get('fsm_statename'), 'master': _nick(c, m),
                                 'mstate': ist.get(m, 'NONE') if m else 'NONE',
                                 'ist': {_nick(c, k): v for k, v in ist.items()},
                                 'decl': peers})

    def on_ext_instance(self, node, status):
        if self.cur is None:
            return
        self.cur['ipubs'].append([node.name, _nick(self.c, status.get('identifier')), status.get('statename')])

    def on_wire(self, rec):
        if self.cur is None:
            return
        seq, kind, src, dst = rec[:4]
        c = self.c
        if kind in ('push_req', 'push_pub'):
            node = c.nodes[src]
            iso = False
            try:
                iso = node.supvisors.context.instances[c.nodes[dst].identifier].isolated
            except Exception:
                pass
            what = rec[4]
            arg = ''
            if kind == 'push_req' and rec[5]:
                arg = str(rec[5][0])
            self.cur['push'].append([src, dst, 'R' if kind == 'push_req' else 'P', int(what), arg, bool(iso)])
        elif kind == 'rpc_fail':
            self.cur['rpcfail'].append([src, dst])
        elif kind == 'push_not' and rec[4] == 5:
            self.cur['nfail'].append([src, rec[5]])
        elif kind == 'sup_order':
            self.cur['orders'].append([src, rec[4]])
        self.cur['touched'].add(src)
        self.cur['touched'].add(dst)

    # -- steps -------------------------------------------------------------------------------------------------
    def begin(self, a, n, d='', k=''):
        self.cur = {'a': a, 'n': n, 'd': d, 'k': k, 'pubs': [], 'ipubs': [], 'push': [], 'rpcfail': [],
                    'orders': [], 'nfail': [], 'touched': {n} | ({d} if d else set()), 'user': False}
        self.c.errors = []

    def end(self, extra=None):
        cur = self.cur
        self.cur = None
        for n in sorted(cur['touched']):
            if n in self.c.nodes:
                self.obs[n] = self.observe(n)
        cur['st'] = {n: self.obs[n] for n in self.c.nodes}
        cur['err'] = [f"{e['node']}: {e['what']}: {e['exc'][-400:]}" for e in self.c.errors]
        self.c.errors = []
        del cur['touched']
        if extra:
            cur.update(extra)
        self.steps.append(cur)
        return cur

    def dump(self):
        return json.dumps(self.steps)


class Driver:
    """Scheduler actions with recording. Every action appends to rec.schedule so that a run can be replayed."""

    def __init__(self, cluster, with_sm=True):
        self.c = cluster
        self.rec = Recorder(cluster, with_sm=with_sm)

    def _log(self, *a):
        self.rec.schedule.append(list(a))

    def boot(self, n):
        self._log('boot', n)
        self.rec.begin('Boot', n)
        self.c.boot(n)
        return self.rec.end()

    def tick(self, n):
        if not self.c.nodes[n].alive:
            return None
        self._log('tick', n)
        self.rec.begin('Tick', n)
        self.c.tick(n)
        return self.rec.end()

    def proxy(self, src, dst):
        kind = self.c.head_kind(src, dst)
        if kind is None:
            return None
        self._log('proxy', src, dst)
        self.rec.begin('Proxy', src, dst, kind)
        # snapshot for airtightness when the destination holds the source ISOLATED (C13)
        snap_before = None
        iso = False
        if dst != src and self.c.nodes[dst].alive and kind.startswith('PUBLICATION'):
            iso = self.rec.obs[dst]['inst'].get(src) == 'ISOLATED'
            if iso:
                snap_before = full_snapshot(self.c, dst)
        self.c.proxy_step(src, dst)
        extra = {'iso': iso, 'snapchg': False}
        if iso and self.c.nodes[dst].alive:
            extra['snapchg'] = full_snapshot(self.c, dst) != snap_before
        return self.rec.end(extra)

    def crash(self, n):
        if not self.c.nodes[n].alive:
            return None
        self._log('crash', n)
        self.rec.begin('Crash', n)
        self.c.crash(n)
        return self.rec.end()

    def cut(self, a, b):
        self._log('cut', a, b)
        self.rec.begin('Cut', a, b)
        self.c.cut(a, b)
        return self.rec.end()

    def heal(self, a, b):
        self._log('heal', a, b)
        self.rec.begin('Heal', a, b)
        self.c.heal(a, b)
        return self.rec.end()

    def rpc(self, n, method, *args, ns='supvisors'):
        if not self.c.nodes[n].alive:
            return None
        self._log('rpc', n, method, list(args), ns)
        self.rec.begin('Rpc', n, '', method)
        self.rec.cur['user'] = True
        out = self.c.rpc(n, method, *args, ns=ns)
        self.rec.end({'res': [out[0], out[1] if out[0] == 'fault' else '']})
        return out

    def env(self, what, n, namespec, arg=0):
        """Process environment actions: 'exit' (code), 'killed', 'transition'."""
        if not self.c.nodes[n].alive:
            return None
        self._log('env', what, n, namespec, arg)
        self.rec.begin('Env', n, '', what)
        if what == 'exit':
            self.c.proc_exit(n, namespec, arg)
        elif what == 'killed':
            self.c.proc_killed(n, namespec)
        elif what == 'transition':
            self.c.sup_transition(n)
        elif what == 'spawnerr':
            self.c.nodes[n].spawn_errors.append(True)
        return self.rec.end()

    def drain(self, limit=2000, only=None):
        n = 0
        while n < limit:
            pend = self.c.pending()
            if only:
                pend = [p for p in pend if only(p)]
            if not pend:
                break
            pend.sort()
            self.proxy(*pend[0])
            n += 1
        return n

    def fair_round(self, reap=False):
        for n in self.c.nodes:
            if self.c.nodes[n].alive:
                self.tick(n)
                self.drain()
        if reap:
            self.reap()

    def reap(self):
        """Prompt processes: every process that was sent a signal and is STOPPING dies now."""
        for n, node in self.c.nodes.items():
            if node.alive:
                for ns, proc in list(node.processes()):
                    if proc.state == 40 and proc.pid:
                        self.env('killed', n, ns)
                        self.drain()

    def replay(self, schedule):
        for s in schedule:
            a = s[0]
            if a == 'boot':
                self.boot(s[1])
            elif a == 'tick':
                self.tick(s[1])
            elif a == 'proxy':
                self.proxy(s[1], s[2])
            elif a == 'crash':
                self.crash(s[1])
            elif a == 'cut':
                self.cut(s[1], s[2])
            elif a == 'heal':
                self.heal(s[1], s[2])
            elif a == 'rpc':
                self.rpc(s[1], s[2], *s[3], ns=s[4])
            elif a == 'env':
                self.env(s[1], s[2], s[3], s[4])


def full_snapshot(c, n):
    """Everything node n reports through its status XML-RPCs (volatile time fields removed)."""
    node = c.nodes[n]
    out = {}
    VOL = ('now_monotonic', 'remote_mtime', 'remote_time', 'local_mtime', 'local_time', 'last_event_mtime',
           'uptime', 'now')
    with c.enter(n):
        rpc = node.rpc
        for m in ('get_supvisors_state', 'get_master_identifier', 'get_all_instances_info',
                  'get_all_instances_state_modes', 'get_all_applications_info', 'get_all_process_info',
                  'get_conflicts', 'get_statistics_status'):
            try:
                out[m] = json.dumps(_scrub(getattr(rpc, m)(), VOL), sort_keys=True, default=str)
            except Exception as exc:
                out[m] = f'EXC {type(exc).__name__} {getattr(exc, "code", "")}'
        for ident in list(node.supvisors.context.instances):
            try:
                out['inner:' + ident] = json.dumps(_scrub(rpc.get_all_inner_process_info(ident), VOL),
                                                   sort_keys=True, default=str)
            except Exception as exc:
                out['inner:' + ident] = f'EXC {type(exc).__name__}'
    return out


def _scrub(x, vol):
    if isinstance(x, dict):
        return {k: _scrub(v, vol) for k, v in x.items() if k not in vol}
    if isinstance(x, (list, tuple)):
        return [_scrub(v, vol) for v in x]
    return x
