"""SimCluster: N real Supvisors cores (and real Supervisor process tables) in one Python process.

Real: everything under supvisors/ except thread loops, sockets and the statistics collector process; Supervisor's
own ServerOptions (config parsing), Supervisor, ProcessGroup, Subprocess (spawn/kill/finish/transition produce the
genuine event sequences), SupervisorNamespaceRPCInterface.
Simulated: threads (one scheduler step = one queued item of one proxy), XML-RPC transport (in-process call through
xmlrpc marshalling, with OSError on unreachable targets), fork/kill/pipes (no OS process), time (virtual clock),
host identity (per-instance answers).

See DESIGN.md 2.4 and Appendix A.
"""
import errno
import json
import os
import signal
import sys
import threading
import types
import xmlrpc.client as xc
from collections import deque

import time as _real_time

# ---------------------------------------------------------------------------------------------------------------
# virtual time


class VClock:
    """Virtual clocks, one per instance (Supvisors never compares clocks of different instances: remote times are
    display-only). The clock of an instance only advances when the scheduler advances it (by default: one tick
    period before each of its Supervisor ticks). Every read adds a strictly increasing epsilon because the code
    under test compares handshake timestamps with a strict '>'."""

    EPS = 1e-9

    def __init__(self):
        self.t = {}           # per instance name: seconds
        self.reads = 0
        self.current = None   # current instance name (set by Cluster.enter)

    def _now(self):
        self.reads += 1
        return self.t.setdefault(self.current, 1000.0) + self.reads * self.EPS

    def monotonic(self):
        return self._now()

    def time(self):
        return 1.7e9 + self._now()

    def advance(self, secs, name=None):
        if name is None:
            for n in self.t:
                self.t[n] += secs
        else:
            self.t[name] = self.t.get(name, 1000.0) + secs


class FakeTimeModule(types.ModuleType):
    """Stands for the `time` module inside supvisors.* and supervisor.* modules only (the stdlib keeps real time)."""

    def __init__(self, clock):
        super().__init__('time')
        self._clock = clock

    def time(self):
        return self._clock.time()

    def monotonic(self):
        return self._clock.monotonic()

    def sleep(self, secs):
        raise RuntimeError('sleep() called inside the simulated main thread')

    def __getattr__(self, name):
        return getattr(_real_time, name)


# ---------------------------------------------------------------------------------------------------------------
# logger


class RecLogger:
    """Logger recorder with the interface of supervisor.loggers.Logger."""

    def __init__(self, owner, keep_level=40):
        from supervisor.loggers import LevelsByName
        self.level = LevelsByName.CRIT if os.environ.get('SIM_VERBOSE') is None else LevelsByName.BLAT
        self.handlers = []
        self.owner = owner
        self.criticals = []     # (msg) of CRIT level records
        self.errors = []
        self.verbose = os.environ.get('SIM_VERBOSE') is not None
        self._L = LevelsByName
        # the code under test formats messages eagerly (f-strings), level only filters emission

    def close(self):
        pass

    def log(self, level, msg, **kw):
        if level >= self._L.CRIT:
            self.criticals.append(msg)
        elif level >= self._L.ERRO:
            self.errors.append(msg)
            if len(self.errors) > 200:
                del self.errors[:100]
        if self.verbose:
            sys.stderr.write(f'[{self.owner}] {level} {msg}\n')

    def critical(self, msg, **kw):
        self.log(self._L.CRIT, msg, **kw)

    def error(self, msg, **kw):
        self.log(self._L.ERRO, msg, **kw)

    def warn(self, msg, **kw):
        self.log(self._L.WARN, msg, **kw)

    def info(self, msg, **kw):
        self.log(self._L.INFO, msg, **kw)

    def debug(self, msg, **kw):
        self.log(self._L.DEBG, msg, **kw)

    def trace(self, msg, **kw):
        self.log(self._L.TRAC, msg, **kw)

    def blather(self, msg, **kw):
        self.log(self._L.BLAT, msg, **kw)

    def getvalue(self):
        return ''


# ---------------------------------------------------------------------------------------------------------------
# external publisher recorder


class PubRecorder:
    """Implements supvisors.external_com.EventPublisherInterface; keeps the last payloads and the FSM state trail."""

    def __init__(self, node):
        self.node = node
        self.state_trail = []       # fsm_statename values in publication order
        self.supvisors_status = []  # full payloads (bounded)
        self.instance_status = {}
        self.process_events = []
        self.nb = 0

    def close(self):
        pass

    def send_supvisors_status(self, status):
        self.nb += 1
        name = status.get('fsm_statename')
        self.supvisors_status.append(dict(status))
        if len(self.supvisors_status) > 50:
            del self.supvisors_status[:25]
        if not self.state_trail or self.state_trail[-1] != name:
            self.state_trail.append(name)
        self.node.cluster.on_ext_status(self.node, status)

    def send_instance_status(self, status):
        self.nb += 1
        self.instance_status[status.get('identifier')] = status
        self.node.cluster.on_ext_instance(self.node, status)

    def send_application_status(self, status):
        self.nb += 1

    def send_process_event(self, event):
        self.nb += 1

    def send_process_status(self, status):
        self.nb += 1

    def send_host_statistics(self, statistics):
        self.nb += 1

    def send_process_statistics(self, statistics):
        self.nb += 1


# ---------------------------------------------------------------------------------------------------------------
# transport


class _Method:
    def __init__(self, transport, ns, name):
        self.t, self.ns, self.name = transport, ns, name

    def __call__(self, *args):
        return self.t.call(self.ns, self.name, args)


class _Namespace:
    def __init__(self, transport, ns):
        self._t, self._ns = transport, ns

    def __getattr__(self, name):
        if name.startswith('_'):
            raise AttributeError(name)
        return _Method(self._t, self._ns, name)


class Transport:
    """Stands for xmlrpc ServerProxy(src -> dst). Calls the target's real RPC interfaces synchronously, marshalling
    arguments and results through xmlrpc.client, raising the OSError family when the target cannot be reached."""

    def __init__(self, cluster, src, dst):
        self.cluster, self.src, self.dst = cluster, src, dst
        self.supervisor = _Namespace(self, 'supervisor')
        self.supvisors = _Namespace(self, 'supvisors')
        self.system = _Namespace(self, 'system')

    def call(self, ns, name, args):
        from supervisor.xmlrpc import RPCError
        cl = self.cluster
        target = cl.nodes[self.dst]
        if not cl.reachable(self.src, self.dst):
            cl.wire('rpc_fail', self.src, self.dst, f'{ns}.{name}')
            raise ConnectionRefusedError(errno.ECONNREFUSED, f'sim: {self.dst} unreachable from {self.src}')
        # marshal the arguments as the real transport does (raises TypeError/OverflowError on bad data)
        params, _ = xc.loads(xc.dumps(tuple(args), methodname=f'{ns}.{name}', allow_none=True))
        cl.on_rpc(self.src, self.dst, ns, name, params)
        with cl.enter(self.dst):
            intf = getattr(target.root_rpc, ns)
            try:
                result = getattr(intf, name)(*params)
                if callable(result):
                    # deferred result (NOT_DONE_YET protocol): the simulated transport only supports wait=False
                    raise RuntimeError(f'sim: deferred XML-RPC result for {ns}.{name}')
            except RPCError as exc:
                cl.wire('rpc_fault', self.src, self.dst, f'{ns}.{name}', exc.code)
                raise xc.Fault(exc.code, exc.text)
            except xc.Fault:
                raise
            except Exception as exc:   # an internal error of the *server* side: the real server answers a 500
                cl.internal_error(self.dst, f'xmlrpc {ns}.{name}{params!r}', exc)
                raise xc.ProtocolError(self.dst, 500, 'Internal Server Error', {})
        if result is None:
            raise TypeError('cannot marshal None unless allow_none is enabled')
        (res,), _ = xc.loads(xc.dumps((result,), methodresponse=True, allow_none=False))
        return res


# ---------------------------------------------------------------------------------------------------------------
# Supervisor options without OS effects


def make_sim_options_class():
    from supervisor.options import ServerOptions

    class SimServerOptions(ServerOptions):
        """Real Supervisor ServerOptions; every OS-touching primitive is simulated."""
        sim_node = None

        def make_logger(self):
            pass

        def fork(self):
            node = self.sim_node
            err = node.next_spawn_error()
            if err:
                raise OSError(errno.EAGAIN, 'sim: process table full')
            node.pid_counter += 1
            return node.pid_counter

        def kill(self, pid, sig):
            self.sim_node.kills.append((pid, sig))

        def make_pipes(self, stderr=True):
            return {'child_stdin': None, 'stdin': None, 'stdout': None, 'child_stdout': None,
                    'stderr': None, 'child_stderr': None}

        def close_parent_pipes(self, pipes):
            pass

        def close_child_pipes(self, pipes):
            pass

        def close_httpservers(self):
            pass

        def cleanup_fds(self):
            pass

        def openhttpservers(self, supervisord):
            raise RuntimeError('sim')

    return SimServerOptions


class _FakeSocket:
    def shutdown(self, how):
        pass


class _FakeHttpServer:
    def __init__(self, handler):
        self.handlers = [handler, None, None, None]
        self.socket = _FakeSocket()


class _FakeXmlRpcHandler:
    def __init__(self, root):
        self.rpcinterface = root


# ---------------------------------------------------------------------------------------------------------------
# node


class Node:
    """One Supervisor + Supvisors instance (one incarnation at a time)."""

    def __init__(self, cluster, name, host, port, spec):
        self.cluster = cluster
        self.name = name            # nick identifier
        self.host = host            # host index (int): ip 10.0.0.<host>, hostname node<host>
        self.port = port
        self.spec = spec            # dict: programs, options overrides
        self.identifier = f'10.0.0.{host}:{port}'
        self.alive = False
        self.incarnation = 0
        self.pid_counter = 1000 * (1 + list(cluster.layout).index(name))
        self.kills = []
        self.spawn_errors = deque()   # scripted: True => next fork fails
        self.supervisord = None
        self.supvisors = None
        self.root_rpc = None
        self.callbacks = []
        self.logger = None
        self.publisher = None
        self.sup_orders = []          # 'restart' / 'shutdown' orders received by this Supervisor
        self.tick_count = 0

    def next_spawn_error(self):
        if self.spawn_errors:
            return self.spawn_errors.popleft()
        return False

    # -- configuration files -----------------------------------------------------------------------------------
    def conf_path(self):
        return os.path.join(self.cluster.scratch, f'{self.name}.conf')

    def write_conf(self):
        cl = self.cluster
        opts = dict(cl.options)
        opts.update(self.spec.get('options', {}))
        lines = ['[inet_http_server]', f'port=:{self.port}', '',
                 '[supervisord]', f'logfile={cl.scratch}/{self.name}.log', f'pidfile={cl.scratch}/{self.name}.pid',
                 f'identifier={self.name}', 'nodaemon=true', f'childlogdir={cl.scratch}', '',
                 '[rpcinterface:supervisor]',
                 'supervisor.rpcinterface_factory = supervisor.rpcinterface:make_main_rpcinterface', '',
                 '[rpcinterface:supvisors]',
                 'supervisor.rpcinterface_factory = supvisors.plugin:make_supvisors_rpcinterface']
        if 'supvisors_list' not in opts:
            opts['supvisors_list'] = ','.join(cl.item(n) for n in cl.layout)
        if cl.rules_path and 'rules_files' not in opts:
            opts['rules_files'] = cl.rules_path
        for k, v in opts.items():
            if v is not None:
                lines.append(f'{k} = {v}')
        lines.append('')
        groups = {}
        for prog in self.spec.get('programs', []):
            pname = prog['name']
            lines.append(f'[program:{pname}]')
            lines.append(f"command={prog.get('command', '/bin/cat')}")
            lines.append(f"autostart={'true' if prog.get('autostart') else 'false'}")
            lines.append(f"autorestart={prog.get('autorestart', 'false')}")
            lines.append(f"startsecs={prog.get('startsecs', 1)}")
            lines.append(f"startretries={prog.get('startretries', 1)}")
            lines.append(f"stopwaitsecs={prog.get('stopwaitsecs', 10)}")
            lines.append(f"exitcodes={prog.get('exitcodes', '0')}")
            lines.append('stdout_logfile=NONE')
            lines.append('stderr_logfile=NONE')
            numprocs = prog.get('numprocs', 1)
            if numprocs > 1 or prog.get('process_name'):
                lines.append(f'numprocs={numprocs}')
                lines.append(f"process_name={prog.get('process_name', '%(program_name)s_%(process_num)02d')}")
            lines.append('')
            for g in prog.get('groups', [pname]):
                if g != pname:
                    groups.setdefault(g, []).append(pname)
        for g, progs in groups.items():
            lines.append(f'[group:{g}]')
            lines.append('programs=' + ','.join(progs))
            lines.append('')
        with open(self.conf_path(), 'w') as f:
            f.write('\n'.join(lines))

    # -- life cycle ---------------------------------------------------------------------------------------------
    def boot(self):
        """Mirror of supervisord main()/run() up to SupervisorRunningEvent."""
        from supervisor import events
        from supervisor.supervisord import Supervisor
        from supervisor.xmlrpc import RootRPCInterface
        from supervisor.states import SupervisorStates
        cl = self.cluster
        assert not self.alive
        self.incarnation += 1
        self.write_conf()
        self.callbacks = []
        self.kills = []
        self.logger = RecLogger(self.name)
        self.tick_count = 0
        with cl.enter(self.name):
            saved_argv = sys.argv
            sys.argv = ['supervisord', '-c', self.conf_path(), '-n']
            try:
                options = cl.SimServerOptions()
                options.sim_node = self
                options.realize(['-c', self.conf_path(), '-n'])
                options.logger = self.logger
                options.mood = SupervisorStates.RUNNING
                sd = Supervisor(options)
                sd.process_groups = {}
                sd.stop_groups = None
                for config in options.process_group_configs:
                    sd.add_process_group(config)
                # openhttpservers: create the RPC interfaces (this constructs the real Supvisors object)
                subinterfaces = []
                for name, factory, d in options.rpcinterface_factories:
                    subinterfaces.append((name, factory(sd, **d)))
                root = RootRPCInterface(subinterfaces)
                options.httpservers = [(options.server_configs[0], _FakeHttpServer(_FakeXmlRpcHandler(root)))]
            finally:
                sys.argv = saved_argv
            self.supervisord = sd
            self.supvisors = sd.supvisors
            self.root_rpc = root
            self._patch_instance()
            self.alive = True
            cl.wire('boot', self.name, self.name, self.incarnation)
            # runforever(): SupervisorRunningEvent
            events.notify(events.SupervisorRunningEvent())
        cl.after_step(self.name)

    def _patch_instance(self):
        s = self.supvisors
        self.publisher = PubRecorder(self)
        # the proxy server created by the real RpcHandler already uses the simulated proxy class (klass patched)
        # supervisor namespace: restart / shutdown must not act on the process
        sup_intf = self.root_rpc.supervisor
        node = self

        def restart():
            node.sup_orders.append('restart')
            node.cluster.wire('sup_order', node.name, node.name, 'restart')
            node.cluster.pending_order[node.name] = 'restart'
            return True

        def shutdown():
            node.sup_orders.append('shutdown')
            node.cluster.wire('sup_order', node.name, node.name, 'shutdown')
            node.cluster.pending_order[node.name] = 'shutdown'
            return True
        sup_intf.restart = restart
        sup_intf.shutdown = shutdown

    def kill(self):
        """Abrupt death of the Supervisor process (no stopping event)."""
        self.alive = False
        self.supervisord = None
        self.supvisors = None
        self.root_rpc = None
        self.callbacks = []
        self.publisher = None

    def stop_gracefully(self):
        """Supervisor stopping (restart/shutdown order): SupervisorStoppingEvent then death."""
        from supervisor import events
        with self.cluster.enter(self.name):
            events.notify(events.SupervisorStoppingEvent())
        self.kill()

    # -- accessors ----------------------------------------------------------------------------------------------
    @property
    def rpc(self):
        return self.root_rpc.supvisors

    def processes(self):
        for gname, group in self.supervisord.process_groups.items():
            for pname, proc in group.processes.items():
                yield f'{gname}:{pname}', proc

    def process(self, namespec):
        g, p = namespec.split(':')
        return self.supervisord.process_groups[g].processes[p]


# ---------------------------------------------------------------------------------------------------------------
# cluster


# The cyclic garbage collector is switched off while the code under test runs: with millions of recorded objects alive
# a full collection takes seconds of CPU and would be mistaken for a step that does not return. Young generations are
# collected when a cluster is closed.
import gc
gc.disable()


class StepHang(BaseException):
    """The real code did not come back from one scheduler step (BaseException: not swallowed by its own guards)."""


STEP_CPU_LIMIT = 5.0           # seconds of CPU for one scheduler step (a step normally takes milliseconds)
HUNG_TOTAL = [0]               # number of watchdog interruptions in this process (read by vlib.Verdict.finish)


def _on_vtalrm(signum, frame):
    raise StepHang(f'no return after {STEP_CPU_LIMIT} s of CPU')


class _Enter:
    def __init__(self, cluster, name):
        self.c, self.name = cluster, name

    def __enter__(self):
        from supervisor import events
        c = self.c
        if not c._stack and threading.current_thread() is threading.main_thread():
            signal.signal(signal.SIGVTALRM, _on_vtalrm)
            # (repeating: an interruption that lands in a context where exceptions are ignored - weakref callbacks,
            # __del__ - must be followed by another one)
            signal.setitimer(signal.ITIMER_VIRTUAL, STEP_CPU_LIMIT, 0.2)
        c._stack.append((c.clock.current, events.callbacks))
        c.clock.current = self.name
        node = c.nodes[self.name]
        events.callbacks = node.callbacks
        c.current = self.name

    def __exit__(self, etype, exc, tb):
        c = self.c
        outer = len(c._stack) == 1 and threading.current_thread() is threading.main_thread()
        if outer:
            # disarm first (the timer repeats); an interruption landing right here is absorbed and retried
            for _ in range(3):
                try:
                    signal.setitimer(signal.ITIMER_VIRTUAL, 0)
                    break
                except StepHang:
                    continue
        from supervisor import events
        node = c.nodes[self.name]
        node.callbacks = events.callbacks
        prev, cbs = c._stack.pop()
        c.clock.current = prev
        c.current = prev
        events.callbacks = cbs
        if not c._stack and threading.current_thread() is threading.main_thread():
            signal.setitimer(signal.ITIMER_VIRTUAL, 0)
            if etype is StepHang:
                # the instance is stuck in a loop: reported as an internal error; the instance is taken out
                c.errors.append({'node': self.name, 'what': 'step did not terminate', 'exc': repr(exc)})
                c.hung.append(self.name)
                HUNG_TOTAL[0] += 1
                try:
                    for p in c.proxies(self.name).values():
                        # (the interrupted code may hold the queue mutex for ever: never wait for it)
                        if p.queue.mutex.acquire(timeout=0.05):
                            try:
                                p.queue.queue.clear()
                            finally:
                                p.queue.mutex.release()
                except Exception:
                    pass
                node.alive = False
                if node.logger:
                    node.logger.criticals = []
                return True
        return False


_PATCHED = {}


def patch_environment(clock_holder):
    """Process-wide patches (idempotent). clock_holder is a one-element list holding the active cluster."""
    if _PATCHED:
        _PATCHED['holder'][0] = clock_holder[0]
        return
    _PATCHED['holder'] = clock_holder
    import supvisors.plugin as plugin
    plugin.apply_patches()
    from supvisors.internal_com import supervisorproxy, mapper
    import supvisors.listener as listener

    class LazyTime(types.ModuleType):
        def __getattr__(self, name):
            cl = _PATCHED['holder'][0]
            return getattr(cl.faketime, name)
    lazy = LazyTime('time')
    import supvisors
    import supervisor
    import pkgutil
    import importlib
    # replace the `time` module reference in every supvisors/supervisor module that imported it
    for pkg in (supvisors, supervisor):
        for m in pkgutil.walk_packages(pkg.__path__, pkg.__name__ + '.'):
            if '.tests' in m.name or '.web' in m.name or '.tools' in m.name or 'supvisorsctl' in m.name \
                    or '.scripts' in m.name or 'supvisorsflask' in m.name:
                continue
            try:
                mod = importlib.import_module(m.name)
            except Exception:
                continue
            if getattr(mod, 'time', None) is _real_time:
                mod.time = lazy

    # host identity
    class FakeSocketModule(types.ModuleType):
        def __getattr__(self, name):
            import socket as _s
            return getattr(_s, name)

        @staticmethod
        def _cl():
            return _PATCHED['holder'][0]

        def gethostname(self):
            cl = self._cl()
            return f'node{cl.nodes[cl.current].host}'

        def getfqdn(self, name=''):
            cl = self._cl()
            if name:
                return name
            return f'node{cl.nodes[cl.current].host}.sim'

        def gethostbyaddr(self, host_id):
            import socket as _s
            cl = self._cl()
            for n in cl.nodes.values():
                if host_id in (f'10.0.0.{n.host}', f'node{n.host}', f'node{n.host}.sim'):
                    return f'node{n.host}', [], [f'10.0.0.{n.host}']
            m = cl.extra_hosts.get(host_id)
            if m:
                return m
            raise _s.gaierror(f'sim: unknown host {host_id}')

        def if_nameindex(self):
            return [(1, 'lo'), (2, 'eth0')]
    mapper.socket = FakeSocketModule('socket')

    class FakeUuid:
        @staticmethod
        def getnode():
            cl = _PATCHED['holder'][0]
            return 0x020000000000 + cl.nodes[cl.current].host
    mapper.uuid = FakeUuid

    def get_interface_info(nic_name):
        cl = _PATCHED['holder'][0]
        if nic_name == 'lo':
            return '127.0.0.1', '255.0.0.0'
        return f'10.0.0.{cl.nodes[cl.current].host}', '255.255.255.0'
    mapper.get_interface_info = get_interface_info

    # statistics collector: no OS process, no pipes (a pipe nobody reads blocks the main thread once full)
    import supvisors.statscollector as statscollector

    class SimCollector:
        def __init__(self, supvisors):
            self.pids = {}
            self.started = False

        def start(self):
            self.started = True

        def stop(self):
            self.started = False

        def alive(self):
            pass

        def send_pid(self, namespec, pid):
            self.pids[namespec] = pid

        def get_host_stats(self):
            return []

        def get_process_stats(self):
            return []

        def enable_host(self, *a):
            pass

        def enable_process(self, *a):
            pass

        def update_collecting_period(self, *a):
            pass
    statscollector.StatisticsCollectorProcess = SimCollector

    # external publisher factory
    def create_external_publisher(supvisors):
        cl = _PATCHED['holder'][0]
        return cl.nodes[cl.current].publisher
    listener.create_external_publisher = create_external_publisher

    # simulated proxy thread
    base = supervisorproxy.SupervisorProxyThread

    class SimProxy(base):
        """SupervisorProxyThread never started: the scheduler pops its queue."""

        def start(self):
            self.live_event.set()

        def join(self, timeout=None):
            return

        def is_alive(self):
            return not self.stop_event.is_set()

        def stop(self):
            base.stop(self)
            # what run() does when it leaves its loop
            self.supvisors.rpc_handler.proxy_server.on_proxy_closing(self.status.identifier)

        def _get_proxy(self):
            cl = _PATCHED['holder'][0]
            src = cl.by_identifier[self.local_identifier]
            dst = cl.by_identifier[self.status.identifier]
            return Transport(cl, src, dst)

        def push_message(self, message):
            base.push_message(self, message)
            cl = _PATCHED['holder'][0]
            cl.on_push(self, message)
    supervisorproxy.SupervisorProxyServer.klass = SimProxy
    _PATCHED['SimProxy'] = SimProxy


class Cluster:
    """The scheduler-facing API. layout: {nick: {'host': int, 'port': int, 'programs': [...], 'options': {...}}}."""

    def __init__(self, layout, options=None, rules_xml=None, scratch=None, tick_secs=5.0):
        import tempfile
        self.layout = layout
        self.options = dict(options or {})
        self.options.setdefault('synchro_options', 'STRICT')
        self.scratch = scratch or tempfile.mkdtemp(prefix='simcluster-')
        self._own_scratch = scratch is None
        self.rules_path = None
        if rules_xml:
            self.rules_path = os.path.join(self.scratch, 'rules.xml')
            with open(self.rules_path, 'w') as f:
                f.write(rules_xml)
        self.clock = VClock()
        for idx, name in enumerate(layout):
            self.clock.t[name] = 1000.0 * (idx + 1)
        self.faketime = FakeTimeModule(self.clock)
        self.tick_secs = tick_secs
        self.current = None
        self._stack = []
        self.hung = []            # instances that did not come back from a step (StepHang)
        self.nodes = {}
        self.by_identifier = {}
        self.extra_hosts = {}
        self.cuts = set()             # (a, b): no transport from a to b (directed)
        self.wirelog = []             # (seq, kind, src, dst, info...)
        self.errors = []              # internal errors observed (C16)
        self.criticals = []           # other critical log records (informative)
        self.pending_order = {}       # node -> 'restart'/'shutdown' (Supervisor order received, not yet executed)
        self.observers = []           # objects with optional on_wire/on_step callbacks
        self.seq = 0
        holder = [self]
        patch_environment(holder)
        self.SimServerOptions = make_sim_options_class()
        for name, spec in layout.items():
            node = Node(self, name, spec.get('host', 1), spec.get('port', 60000), spec)
            self.nodes[name] = node
            self.by_identifier[node.identifier] = name

    def close(self):
        import shutil
        if self._own_scratch:
            shutil.rmtree(self.scratch, ignore_errors=True)
        # break the big reference cycles of the instances by hand and collect the young generations only
        for node in self.nodes.values():
            node.supvisors = None
            node.supervisord = None
        self._closed_count = getattr(Cluster, '_closed_total', 0) + 1
        Cluster._closed_total = self._closed_count
        gc.collect(1)
        if self._closed_count % 50 == 0:
            gc.collect()

    def item(self, name):
        spec = self.layout[name]
        return f"<{name}>10.0.0.{spec.get('host', 1)}:{spec.get('port', 60000)}"

    def enter(self, name):
        return _Enter(self, name)

    # -- observation hooks --------------------------------------------------------------------------------------
    def wire(self, kind, src, dst, *info):
        self.seq += 1
        rec = (self.seq, kind, src, dst) + info
        self.wirelog.append(rec)
        for o in self.observers:
            f = getattr(o, 'on_wire', None)
            if f:
                f(rec)

    def on_push(self, proxy, message):
        """Every item appended to a proxy FIFO."""
        from supvisors.internal_com.supervisorproxy import InternalEventHeaders
        src = self.by_identifier[proxy.local_identifier]
        dst = self.by_identifier[proxy.status.identifier]
        kind, (source, body) = message
        if kind == InternalEventHeaders.REQUEST:
            self.wire('push_req', src, dst, body[0], body[1])
        elif kind == InternalEventHeaders.PUBLICATION:
            self.wire('push_pub', src, dst, body[0])
        else:
            self.wire('push_not', src, dst, body[0], self.by_identifier.get(source[0], str(source[0])))

    def on_rpc(self, src, dst, ns, name, params):
        if name in ('sendRemoteCommEvent',):
            return
        self.wire('rpc', src, dst, f'{ns}.{name}', params)

    def on_ext_status(self, node, status):
        self.wire('ext_state', node.name, node.name, status.get('fsm_statename'), status.get('master_identifier'))

    def on_ext_instance(self, node, status):
        pass

    def internal_error(self, where, what, exc):
        import traceback
        self.errors.append({'node': where, 'what': what, 'exc': repr(exc),
                            'tb': traceback.format_exc(limit=8)})

    def reachable(self, src, dst):
        if not self.nodes[dst].alive:
            return False
        if src != dst and (src, dst) in self.cuts:
            return False
        return True

    def after_step(self, name):
        """Collect critical logs of the node after each step (the listener's last-resort guards)."""
        node = self.nodes[name]
        if node.logger and node.logger.criticals:
            for msg in node.logger.criticals:
                # C16: the last-resort guards log the traceback at CRITICAL level; other critical records
                # (refused FSM transition, OFF state waiting...) are informative
                if 'Traceback' in msg:
                    self.errors.append({'node': name, 'what': 'critical log', 'exc': msg[-600:]})
                else:
                    self.criticals.append((name, msg[:200]))
                    if len(self.criticals) > 500:
                        del self.criticals[:250]
            node.logger.criticals = []

    # -- scheduler actions --------------------------------------------------------------------------------------
    def boot(self, name):
        self.nodes[name].boot()

    def boot_all(self):
        for n in self.nodes:
            self.boot(n)

    def tick(self, name, advance=True):
        """Supervisor TICK_5 on node `name` (also runs the Supervisor transition() pass, as runforever does)."""
        from supervisor import events
        node = self.nodes[name]
        if not node.alive:
            return False
        node.tick_count += 1
        if advance:
            self.clock.advance(self.tick_secs, name)
        with self.enter(name):
            self.sup_transition(name, _entered=True)
            when = int(self.clock.time())
            self.wire('tick', name, name, node.tick_count)
            events.notify(events.Tick5Event(when - when % 5, node.supervisord))
        self.after_step(name)
        self._apply_order(name)
        return True

    def advance(self, secs=None, name=None):
        """Advance the clock(s) explicitly (ticks advance the clock of their own instance by themselves)."""
        if secs:
            self.clock.advance(secs, name)

    def sup_transition(self, name, _entered=False):
        """One pass of Supervisor's main loop over the process state machines."""
        node = self.nodes[name]
        if not node.alive:
            return

        def run():
            groups = sorted(node.supervisord.process_groups.values())
            for g in groups:
                g.transition()
        if _entered:
            run()
        else:
            with self.enter(name):
                run()
            self.after_step(name)

    def proxies(self, name):
        node = self.nodes[name]
        if not node.alive:
            return {}
        ps = node.supvisors.rpc_handler.proxy_server.proxies
        return {self.by_identifier[ident]: p for ident, p in ps.items()}

    def queue_len(self, src, dst):
        p = self.proxies(src).get(dst)
        return p.queue.qsize() if p else 0

    def pending(self):
        """List of (src, dst) proxies holding at least one item."""
        out = []
        for src in self.nodes:
            for dst, p in self.proxies(src).items():
                if p.queue.qsize():
                    out.append((src, dst))
        return out

    def proxy_step(self, src, dst):
        """Process the head item of proxy src->dst (dst == src: the local proxy, i.e. notifications and CHECK of
        self). Returns False when nothing to do."""
        node = self.nodes[src]
        if not node.alive:
            return False
        p = self.proxies(src).get(dst)
        if p is None or p.queue.qsize() == 0:
            return False
        item = p.queue.get_nowait()
        self.wire('proxy_step', src, dst, self._item_kind(item))
        with self.enter(src):
            try:
                p.process_event(item)
            except Exception as exc:
                self.internal_error(src, f'proxy {src}->{dst} {self._item_kind(item)}', exc)
        self.after_step(src)
        if dst != src and self.nodes[dst].alive:
            self.after_step(dst)
            self._apply_order(dst)
        self._apply_order(src)
        return True

    def _item_kind(self, item):
        kind, (source, body) = item
        if kind.name == 'NOTIFICATION':
            # the instance the notification is about
            subject = source[0] if isinstance(source, (list, tuple)) else source
            return f'{kind.name}:{body[0]}:{self.by_identifier.get(subject, str(subject))}'
        return f'{kind.name}:{body[0]}'

    def head_kind(self, src, dst):
        p = self.proxies(src).get(dst)
        if p is None or p.queue.qsize() == 0:
            return None
        return self._item_kind(p.queue.queue[0])

    def drain(self, limit=10000, order=None):
        """Deliver everything pending in a canonical order until all FIFOs are empty."""
        n = 0
        while n < limit:
            pend = self.pending()
            if not pend:
                break
            pend.sort()
            src, dst = pend[0]
            self.proxy_step(src, dst)
            n += 1
        return n

    def round(self, names=None):
        """One fair round: tick every live node (each advancing its own clock), drain."""
        for n in (names or list(self.nodes)):
            if self.nodes[n].alive:
                self.tick(n)
                self.drain()

    def _apply_order(self, name):
        """A restart/shutdown order received by the Supervisor of `name` is executed at the end of the step."""
        order = self.pending_order.pop(name, None)
        if order and self.nodes[name].alive and self.auto_orders:
            self.nodes[name].stop_gracefully()
            self.wire('sup_stopped', name, name, order)
            if order == 'restart' and self.auto_reboot:
                self.boot(name)

    auto_orders = True
    auto_reboot = False

    def crash(self, name):
        node = self.nodes[name]
        if node.alive:
            node.kill()
            self.wire('crash', name, name)

    def restart(self, name):
        self.crash(name)
        self.boot(name)

    def cut(self, a, b):
        """No transport from a to b (one direction)."""
        self.cuts.add((a, b))
        self.wire('cut', a, b)

    def heal(self, a, b):
        self.cuts.discard((a, b))
        self.wire('heal', a, b)

    def partition(self, a, b):
        self.cut(a, b)
        self.cut(b, a)

    # -- XML-RPC client side (a user) ---------------------------------------------------------------------------
    def rpc(self, name, method, *args, ns='supvisors'):
        """Call an XML-RPC as an external client would. Returns ('ok', result) / ('fault', code, text) /
        ('error', repr) for an exception other than RPCError (C16/C17)."""
        from supervisor.xmlrpc import RPCError
        node = self.nodes[name]
        if not node.alive:
            return ('dead',)
        self.wire('user_rpc', name, name, method, args)
        with self.enter(name):
            intf = getattr(node.root_rpc, ns)
            try:
                res = getattr(intf, method)(*args)
                out = ('ok', res)
            except RPCError as exc:
                out = ('fault', exc.code, exc.text)
            except Exception as exc:
                self.internal_error(name, f'user rpc {method}{args!r}', exc)
                out = ('error', repr(exc))
        self.after_step(name)
        self._apply_order(name)
        return out

    def call(self, name, method, *args, ns='supvisors'):
        out = self.rpc(name, method, *args, ns=ns)
        if out[0] != 'ok':
            raise RuntimeError(f'{name}.{method}{args}: {out}')
        return out[1]

    # -- process environment actions ----------------------------------------------------------------------------
    def proc_exit(self, name, namespec, exit_code=0):
        """The OS process of namespec on node `name` dies (reaped by Supervisor: Subprocess.finish)."""
        node = self.nodes[name]
        proc = node.process(namespec)
        if not proc.pid:
            return False
        with self.enter(name):
            proc.finish(proc.pid, exit_code << 8)
        self.after_step(name)
        return True

    def proc_killed(self, name, namespec):
        """The OS process obeys the last signal it was sent (dies with that signal)."""
        node = self.nodes[name]
        proc = node.process(namespec)
        if not proc.pid:
            return False
        sigs = [s for (pid, s) in node.kills if abs(pid) == proc.pid]
        sig = int(sigs[-1]) if sigs else 15
        with self.enter(name):
            proc.finish(proc.pid, sig)
        self.after_step(name)
        return True

    def sup_start(self, name, namespec):
        """Direct Supervisor start (bypassing Supvisors) - e.g. supervisorctl start."""
        return self.rpc(name, 'startProcess', namespec, False, ns='supervisor')

    def sup_stop(self, name, namespec):
        return self.rpc(name, 'stopProcess', namespec, False, ns='supervisor')

    # -- projections --------------------------------------------------------------------------------------------
    def fsm_state(self, name):
        node = self.nodes[name]
        return node.supvisors.fsm.state.name if node.alive else 'DEAD'

    def master(self, name):
        node = self.nodes[name]
        return node.supvisors.state_modes.master_identifier if node.alive else None

    def nick(self, identifier):
        return self.by_identifier.get(identifier, identifier)

    def inst_view(self, name):
        """{peer nick: state name} as seen by `name`."""
        node = self.nodes[name]
        if not node.alive:
            return {}
        return {self.nick(i): st.state.name for i, st in node.supvisors.context.instances.items()}
