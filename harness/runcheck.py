"""Dispatcher: bin/check <ID> [--tier quick|thorough] [--replay FILE]. Exit 0 held / 1 violation / 2 machinery."""
import argparse
import importlib
import os
import sys
import traceback

HERE = os.path.dirname(os.path.abspath(__file__))
sys.path.insert(0, HERE)
sys.path.insert(0, os.path.join(HERE, '..', 'checks'))


def main():
    ap = argparse.ArgumentParser()
    ap.add_argument('pid')
    ap.add_argument('--tier', default=os.environ.get('VERIF_TIER', 'quick'))
    ap.add_argument('--replay', default=None)
    a = ap.parse_args()
    seed = int(os.environ.get('VERIF_SEED', '1') or 1)
    if a.replay and not os.environ.get('VERIF_OUT'):
        # a replay is a diagnosis, not a check run: it must not overwrite the evidence of the property
        import tempfile
        a.replay = os.path.abspath(a.replay)
        os.environ['VERIF_OUT'] = tempfile.mkdtemp(prefix='verif-replay-')
    import vlib
    try:
        mod = importlib.import_module(a.pid.lower())
        rc = mod.main(a.tier, seed, replay=a.replay)
    except vlib.MachineryFailure as exc:
        print(f'MACHINERY-FAILURE property={a.pid}: {exc}')
        sys.exit(2)
    except Exception:
        print(f'MACHINERY-FAILURE property={a.pid}: unexpected exception')
        traceback.print_exc()
        sys.exit(2)
    sys.exit(rc)


main()
