#!/bin/sh
# usage: muteval.sh <mutation dir (seeded/<ID>)> <check id> [<check id>...]
# Applies the mutation in a scratch worktree of /repo HEAD and runs the given checks with PYTHONPATH pointing at it.
# Prints one RESULT line per check and appends it to <mutation dir>/results.txt when VERIF_MUT_RECORD=1.
MDIR=$(cd "$1" && pwd); shift 1
NAME=$(basename $MDIR)
mkdir -p /tmp/mw
WT=/tmp/mw/$NAME
rm -rf $WT; git -C /repo worktree prune
git -C /repo worktree add -q --detach $WT HEAD || exit 3
if ! git -C $WT apply $MDIR/patch.diff 2>/dev/null; then
  if ! git -C $WT apply --3way $MDIR/patch.diff 2>/dev/null; then echo "RESULT $NAME APPLY-FAILED"; git -C /repo worktree remove --force $WT; exit 0; fi
fi
for C in "$@"; do
  START=$(date +%s)
  PYTHONPATH=$WT VERIF_OUT=/tmp/mw/out_$NAME timeout 1500 bin/check $C > /tmp/mw/$NAME.$C.log 2>&1
  RC=$?
  END=$(date +%s)
  echo "RESULT $NAME check=$C rc=$RC secs=$((END-START)) $(grep -c '^VIOLATION' /tmp/mw/$NAME.$C.log) violations; $(grep -A1 '^VIOLATION' /tmp/mw/$NAME.$C.log | sed -n 2p | cut -c1-240)"
done
git -C /repo worktree remove --force $WT
