#!/usr/bin/env python3
"""Regenerates /verif/MANIFEST.json from the table below (kept valid against /root/.vp/MANIFEST.schema.json)."""
import json
import os

HERE = os.path.dirname(os.path.dirname(os.path.abspath(__file__)))
BASE_CMD = ('cd /repo && /venv/bin/python -m pytest -ra -q -p no:cacheprovider --timeout=900 '
            '--continue-on-collection-errors')

CLAIMED = {
    'C11': dict(
        engine='ProcStatus',
        technique='TLA+ spec (ProcStatus/ProcStatusRef) exhausted by TLC + every K=2 transition and simulated K>=3 '
                  'behaviours replayed on the real Context/ProcessStatus + TLC monitor (ProcStatusMon) on the '
                  'recorded XML-RPC observations',
        text='The abstract state of the synthesis is finite, so TLC exhausts all histories of any length for '
             'K=2,3 (4 in thorough) against the reference semantics; every transition of the K=2 graph and sampled '
             'K>=3 behaviours are executed on the real code, and TLC re-evaluates the same reference formulas on '
             'what get_process_info / get_conflicts / get_inner_process_info actually returned.',
        design_ref='DESIGN.md 3 C11',
        note='Trusted: SimCluster harness (operations injected through Context.load_processes / '
             'on_process_state_event / invalidate_failed / on_process_removed_event of a live node), event times '
             'are harness ranks. Known finding F15 (lost instance while STOPPING) exempted by a TLA+ signature.'),
}

PENDING_REASON = 'check not built yet (work in progress; see DESIGN.md section 3)'


def main():
    ids = [json.loads(l)['id'] for l in open(os.path.join(HERE, 'properties.jsonl'))]
    checks = []
    for pid in ids:
        c = CLAIMED.get(pid)
        if not c:
            continue
        checks.append({
            'property_id': pid,
            'quick_cmd': f'bin/check {pid} --tier quick',
            'thorough_cmd': f'bin/check {pid} --tier thorough',
            'evidence_file': f'/verif/evidence/{pid}.json',
            'replay_cmd_template': f'bin/check {pid} --replay {{path}}',
            'engine': c['engine'],
            'level_claimed': {'category': 'model_checking', 'text': c['text'], 'design_ref': c['design_ref']},
            'level_note': c['note'],
            'technique': c['technique'],
        })
    engines = {}
    for pid, c in CLAIMED.items():
        engines.setdefault(c['engine'], []).append(pid)
    m = {
        'version': 1,
        'setup_cmd': 'bin/setup',
        'hooks': {'guard': 'SUPVISORS_VERIF',
                  'enable': 'no source hook is needed: every observation goes through public surfaces of the real '
                            'objects (XML-RPC interface, simulated wire, external publisher, logger); the guard name '
                            'is reserved',
                  'baseline_off_cmd': BASE_CMD, 'source_commits': [], 'add_only': True},
        'engines': [{'name': e, 'path': f'spec/{e}.tla', 'serves_properties': sorted(p),
                     'kind_free_text': 'TLA+ specification checked by TLC (E1), replayed into the real code (E2) and '
                                       'used as monitor over recorded implementation observations (E3)'}
                    for e, p in sorted(engines.items())],
        'checks': checks,
        'notes': 'All checks: bin/check <ID> --tier quick|thorough; exit 0 held / 1 VIOLATION / 2 machinery failure. '
                 'Known findings: known_findings.json (signatures are TLA+ predicates in the specs).',
        'not_applicable': [{'property_id': i, 'reason': PENDING_REASON} for i in ids if i not in CLAIMED],
    }
    with open(os.path.join(HERE, 'MANIFEST.json'), 'w') as f:
        json.dump(m, f, indent=1)
    try:
        import jsonschema
        jsonschema.validate(m, json.load(open('/root/.vp/MANIFEST.schema.json')))
        print('manifest valid;', len(checks), 'checks claimed')
    except ImportError:
        print('jsonschema not available; manifest written unchecked')


main()
