#!/usr/bin/env python3
"""Regenerates /verif/MANIFEST.json from the table below (kept valid against /root/.vp/MANIFEST.schema.json)."""
import json
import os

HERE = os.path.dirname(os.path.dirname(os.path.abspath(__file__)))
BASE_CMD = ('cd /repo && /venv/bin/python -m pytest -ra -q -p no:cacheprovider --timeout=900 '
            '--continue-on-collection-errors')

CLAIMED = {
    'C11': dict(
        engine='ProcStatus',
        technique='TLA+ spec (ProcStatus/ProcStatusRef) exhausted by TLC + every K=2 transition and simulated K>=3 '
                  'behaviours replayed on the real Context/ProcessStatus + TLC monitor (ProcStatusMon) on the '
                  'recorded XML-RPC observations',
        text='The abstract state of the synthesis is finite, so TLC exhausts all histories of any length for '
             'K=2,3 (4 in thorough) against the reference semantics; every transition of the K=2 graph and sampled '
             'K>=3 behaviours are executed on the real code, and TLC re-evaluates the same reference formulas on '
             'what get_process_info / get_conflicts / get_inner_process_info actually returned.',
        design_ref='DESIGN.md 3 C11',
        note='Trusted: SimCluster harness (operations injected through Context.load_processes / '
             'on_process_state_event / invalidate_failed / on_process_removed_event of a live node), event times '
             'are harness ranks. Known finding F15 (lost instance while STOPPING) exempted by a TLA+ signature.'),
}

CLUSTER_NOTE = ('Trusted: SimCluster (threads, XML-RPC transport, fork/kill, clocks, host identity simulated; everything '
                'under supvisors/ and Supervisor process tables are real); ticks periodic (one per live instance per '
                'round, any order); liveness is bounded (terminal formulas after 12 fair quiet rounds); E1 bounds '
                '(rounds, fault budgets, slow FIFO sets) are listed in the evidence file.')
CLUSTER_TECH = ('TLA+ spec Cluster.tla model-checked by TLC (exhaustive, delay-bounded) + TLC behaviours replayed on real '
                'Supvisors cores with projection comparison + TLC monitor (ClusterMon/ClusterProps) over recorded '
                'implementation traces (replays, seeded random schedules with faults/injections, scenarios)')


def cluster(pid, what):
    return dict(engine='Cluster', technique=CLUSTER_TECH, design_ref=f'DESIGN.md 3 {pid}', note=CLUSTER_NOTE,
                text=what + ' The formulas are written once (ClusterProps.tla) over observable step records and are '
                'evaluated by TLC both on every transition of the model and on every step recorded from the real '
                'code; model counterexamples are replayed on the real code before anything is reported.')


CLAIMED.update({
    'C01': cluster('C01', 'Election rule at every change of Master, Master-only automatic requests, and convergence '
                          'on one running Master after the disturbances stop, for 2-4 instances, all synchro option '
                          'families, core identifiers, auto_fence, crash / restart / partition budgets.'),
    'C02': cluster('C02', 'Every published Supvisors state change follows the documented graph (literal, not read from '
                          'the code), master-driven states need a running Master and slaves only follow, under user '
                          'restart / shutdown / end_sync requests (also at every micro-step after a Master loss, and '
                          'requested re-entrantly from inside the entry action of DISTRIBUTION) and all three failure '
                          'strategies.'),
    'C07': cluster('C07', 'Instance state graph, accuracy (FAILED needs a tick timeout, an XML-RPC failure or a '
                          'restart), completeness after every local tick, fencing rule, for inactivity_ticks 2-3, '
                          'both auto_fence values, crashes, restarts faster than detection (a TICK counter going '
                          'backwards makes the peer overdue at once), partitions; the processes of a lost instance '
                          'are displayed FATAL by those who knew them running there (ReplicaMon, at every quiescent '
                          'step of runs with process activity).'),
    'C08': cluster('C08', 'Terminal classification after fair quiet rounds: every run ends Settled or in a listed '
                          'known class (TLA+ predicates), plus "no decision refused for ever"; includes real '
                          'CONCILIATION checkpoints with every single fault injected.'),
    'C13': cluster('C13', 'Deliveries from an origin held ISOLATED leave the full XML-RPC status snapshot unchanged, '
                          'nothing is queued towards an isolated peer, ISOLATED is absorbing, peers with different '
                          'strategies are never admitted; stale / duplicated handshake notifications are injected.'),
    'C16': cluster('C16', 'No traceback in a critical log, no non-RPCError exception out of an XML-RPC, no exception '
                          'out of a proxy step, over all cluster runs incl. adversarial injections; in the model every '
                          'partial operation (instance / FSM transition tables, empty candidate list) raises err.'),
})

CLAIMED['C06'] = dict(
    engine='Failure',
    technique='TLA+ spec Failure.tla (handler job sets vs reference FailureRef) exhausted by TLC + every transition '
              'executed on the real RunningFailureHandler + TLC monitors (FailureMon, FailureE2E) over recorded outcomes '
              'of object-level replays and of instance-loss / crash scenarios on real cores',
    text='All notification histories of the handler are exhausted in the model (finite state) against the precedence '
         'rule; each (state, operation) pair is executed on the real handler and judged by TLC; the end-to-end effect '
         '(Master only, one action per strategy, final placement) is judged by TLC on scenario summaries recorded from '
         '3-instance real clusters with the loss injected for each strategy / placement / victim.',
    design_ref='DESIGN.md 3 C06',
    note='Trusted: state injection through the public job sets of the handler, recorded Starter/Stopper entry points '
         '(object level); SimCluster (end to end). Known finding F16 (loss of the Master itself) exempted by a TLA+ '
         'signature.')

CLAIMED['C15'] = dict(
    engine='AppStatus',
    technique='definition-level TLA+ spec (AppStatus.tla) enumerated by TLC (all state vectors, all formula trees to a '
              'depth) + each case realised on a real ApplicationStatus of a live node and compared with the admitted '
              'outcomes + table of unsupported construct classes under an audit hook',
    text='The property is a case-rich definition: the spec transcribes the documented rule (not the code), TLC emits '
         'every input of the finite space with the set of admitted outcomes, and each input is executed on real objects '
         '(real process events, real rules files for the required flags, real formula setter / parser) and observed '
         'through get_application_info; "spec differs from code on an enumerated input" is the property failing.',
    design_ref='DESIGN.md 3 C15',
    note='Trusted: SimCluster live node; hostile formulas are covered as classes of constructs rendered to concrete '
         'sources, not as arbitrary strings; inertness observed with sys.addaudithook (import/exec/compile/open/'
         'subprocess/socket events other than the evaluator\'s own any([...])/all([...])).')

CLAIMED['C20'] = dict(
    engine='Stats',
    technique='TLA+ spec Stats.tla (series lengths, period gate, key appearance/vanishing/wrap, pid change) exhausted by '
              'TLC + every transition replayed into the real statistics compilers with seeded concrete values + TLC '
              'monitor (StatsMon) on recorded lengths and scaled values + long random streams at the real depth',
    text='Histories are a state machine over series lengths: the model is exhausted for small depths/periods, each '
         'transition is executed on the real HostStatisticsCompiler / ProcStatisticsCompiler, and TLC judges what '
         'the real objects hold and return (bounded, aligned, gated, CPU range, finite non-negative rates, dropped '
         'history on pid 0).',
    design_ref='DESIGN.md 3 C20',
    note='Trusted: sample generator (non-decreasing jiffies, process work <= cores x elapsed, non-wrapped counters '
         'non-decreasing); core-count changes are outside the stated domain; numeric accuracy not addressed.')

CLAIMED['C17'] = dict(
    engine='RpcGate',
    technique='definition-level TLA+ table (RpcGate.tla: method x state x parameter class -> admitted outcomes, '
              'inertness) enumerated by TLC + every case executed on instances brought to each Supvisors state by a '
              'real history (Master and non-Master), fault code / emitted requests / status snapshot compared',
    text='The gate is a finite product; the spec transcribes the documentation (not the code) and TLC emits every '
         'case with the admitted outcomes; each case is one real XML-RPC on a real instance in a really reached '
         'state, so "spec differs from code on an enumerated input" is the property failing.',
    design_ref='DESIGN.md 3 C17',
    note='Trusted: SimCluster state builders (DISTRIBUTION / CONCILIATION / RESTARTING / SHUTTING_DOWN / ELECTION / FINAL '
         'held by real means); method-specific faults count as served; one defective parameter at a time. Known '
         'finding F12 (restart_application / NOT_MANAGED).')

PLACE_NOTE = ('Trusted: SimCluster; situations realised with really running load processes, real disable XML-RPC, crashed '
              '/ restarted instances; the oracle (TLC) uses the view reported by the requester XML-RPCs and the true '
              'Supervisor configurations. Sampled, not exhaustive (the definition itself is checked by TLC over its full '
              'small space).')
CLAIMED['C04'] = dict(
    engine='Placement',
    technique='definition-level TLA+ spec (Placement.tla: eligibility incl. node load and pending requests) checked by '
              'TLC over its full small space + sampled situations realised on real cores and judged by TLC '
              '(PlacementMon) + concurrent application start scenario',
    text='Eligibility is a case-rich definition over instances, nodes, loads and rules: TLC checks the definition, the '
         'harness realises seeded situations on a real 3-instance / 2-node cluster and TLC judges every observed '
         'START request (OnlyEligible, NoResource, Starved).',
    design_ref='DESIGN.md 3 C04', note=PLACE_NOTE + ' Known finding F17 (concurrent applications).')
CLAIMED['C14'] = dict(
    engine='Placement',
    technique='definition-level TLA+ spec (Placement.tla: Choice per strategy, ties admitted) + sampled situations x 6 '
              'strategies realised on real cores and judged by TLC (PlacementMon) + SINGLE_INSTANCE / SINGLE_NODE '
              'scenarios judged by TLC (PlacementDistMon)',
    text='The strategy is a definition over the eligible set: observed targets must belong to the Choice set computed by '
         'TLC from the requester view; whole-application placement is judged on distribution scenarios including '
         'instances of one node knowing different programs.',
    design_ref='DESIGN.md 3 C14', note=PLACE_NOTE + ' Known finding F14 (SINGLE_NODE, heterogeneous instances).')
CLAIMED['C19'] = dict(
    engine='Placement',
    technique='TLC monitor (PredictMon) over (snapshot, predictions, snapshot, real start) records from sampled placement '
              'situations realised on real cores; placement definition shared with C04/C14',
    text='Prediction = UNCHANGED on every observable + equality with the placement of a real start from the same '
         'situation: both are observed on real cores (full XML-RPC snapshot incl. per-instance information, wire) '
         'and judged by TLC.',
    design_ref='DESIGN.md 3 C19', note=PLACE_NOTE)

SEQ_NOTE = ('Trusted: SimCluster with real Supervisor process state machines (spawn / exit / kill simulated), scripted '
            'process behaviours, harness-level loss of publications; scenarios are seeded samples of the rules x behaviour '
            'x trigger x loss space; the design model Sequencer.tla is abstract (one application plan) and is bound to '
            'the code through the monitor formulas only.')
SEQ_TECH = ('TLA+ design model Sequencer.tla exhausted by TLC (order / abort / bounded invariants, termination under '
            'fairness) + seeded sequencing scenarios on real cores judged step by step by TLC (SequencerMon.tla)')
CLAIMED['C03'] = dict(engine='Sequencer', technique=SEQ_TECH, design_ref='DESIGN.md 3 C03', note=SEQ_NOTE,
    text='Start ordering at process and application level, sequence 0, and the three starting failure strategies '
         'are formulas over requests on the wire, true Supervisor states and what the requester displays; TLC evaluates '
         'them on every step of hundreds of real executions covering failures, unanswered requests, instance loss and '
         'all triggers on Master and non-Master.')
CLAIMED['C09'] = dict(engine='Sequencer', technique=SEQ_TECH, design_ref='DESIGN.md 3 C09',
    note=SEQ_NOTE + ' Known finding F19 (Master order racing with its last publications).',
    text='Stop ordering at both levels, stops only where the process runs, one restart / shutdown order per live '
         'instance and only after everything is stopped or given up, judged by TLC on real 3-instance executions '
         'with never-stopping processes and loss of a non-Master.')
CLAIMED['C10'] = dict(engine='Sequencer', technique=SEQ_TECH, design_ref='DESIGN.md 3 C10', note=SEQ_NOTE,
    text='Jobs flags are observed tick by tick on real cores while events are dropped, requests never answered, '
         'processes never stop and targets are lost; TLC checks the bound computed from the configuration, termination '
         'and the visibility of what was given up.')

CLAIMED['C05'] = dict(
    engine='Concil',
    technique='TLA+ design model Concil.tla (OPERATION / CONCILIATION loop, six strategies, stop / restart requests, '
              'events in a FIFO) model-checked by TLC incl. liveness + skeletons of its behaviours (ConcilH.tla) '
              'replayed on a real 3-instance cluster with outcome comparison + TLC monitor (ConcilMon.tla, sharing '
              'ConcilDef.tla with the model) over every recorded run (skeletons, directed and seeded scenarios)',
    text='TLC exhausts the design loop for each strategy (ExactStops, UnmanagedNever, UserNothing, KeepsOne, Leaves, '
         'UserStays); the same StopSets definition judges the stop / start requests really emitted by the Master of a '
         'real cluster against the true Supervisor process tables and start dates, for duplicates created by direct '
         'Supervisor starts, by new conflicts arriving during a conciliation, by a healed partition, with copies that '
         'die or never stop, and user resolution.',
    design_ref='DESIGN.md 3 C05',
    note='Trusted: SimCluster; n1 is the Master; start dates closer than one tick period are not ordered (uptimes are '
         'refreshed once per tick); with an application-level running failure strategy under RUNNING_FAILURE only '
         'detection, Master-only and termination are judged (the stops then follow C06). Sampled scenarios, not '
         'exhaustive on the implementation side.')

CLAIMED['C12'] = dict(
    engine='Replica',
    technique='TLA+ spec Replica.tla (per-instance records fed by the handshake snapshot and the event stream, sender and '
              'receiver filters, local handshake, crashes, restarts faster than detection) model-checked by TLC for the '
              'current design (TruthOrLost) and for a repaired design (Truth, Agreement) + TLC monitor (ReplicaMon.tla, '
              'same ghost of lost events) over recorded runs of a real 3-instance cluster under seeded random schedulers '
              'and a sweep of one process event over every micro-step of a join',
    text='TLC exhausts the model (2 instances, bounded events / crash / restart): every wrong record at quiescence is '
         'explained by an event lost after the snapshot (the model exhibits F4 as a counterexample to Truth); on the real '
         'code, at every quiescent step of every run, get_all_process_info of every instance is compared by TLC with the '
         'Supervisor process tables and with the other instances, the loss ghost being recomputed from the observed '
         'instance states and proxy steps.',
    design_ref='DESIGN.md 3 C12',
    note='Trusted: SimCluster; conciliation_strategy USER (nothing is stopped automatically); a STOPPING copy may be listed '
         'or not; quiescence = all FIFOs empty, nobody CHECKING / CHECKED / FAILED, everybody sees everybody RUNNING. '
         'Known finding F4 (records never refreshed around handshakes / unnoticed restarts): wrong records are only '
         'accepted when the ghost explains them. Sampled schedules, not exhaustive on the implementation side.')

CLAIMED['C18'] = dict(
    engine='Rules',
    technique='definition-level TLA+ specs Rules.tla (lookup: exact > longest pattern, model chain of 3, supersession, '
              'domain checks, dependency checks, alias expansion, sign identifiers, # / @ spreading) and Options.tla '
              '(conversion with fallback, check_options) evaluated by TLC on seeded generated documents / option '
              'dictionaries + the same inputs resolved by the real Parser / ProcessRules / ApplicationRules / '
              'SupvisorsOptions of a live instance (with lxml + XSD and without lxml) + # / @ observed through '
              'get_process_rules on a booted cluster',
    text='The resolution is a case-rich definition: the specification is transcribed from the documentation, TLC '
         'computes the admissible result for every generated input (a set where the documentation leaves ties open) and '
         'the real code must return one of them without raising, for overlapping patterns at both levels, cyclic / '
         'missing / duplicated models, aliases using each other, in- and out-of-domain values and empty elements.',
    design_ref='DESIGN.md 3 C18',
    note='Trusted: the harness tokenises element texts for the specification (integers, lower-cased boolean tokens, raw '
         'enumeration names); patterns are plain substrings over a 3-letter alphabet (regular-expression operators are '
         'not generated); one rules file; sampled, not exhaustive.')

PENDING_REASON = 'check not built yet (work in progress; see DESIGN.md section 3)'


def main():
    ids = [json.loads(l)['id'] for l in open(os.path.join(HERE, 'properties.jsonl'))]
    checks = []
    for pid in ids:
        c = CLAIMED.get(pid)
        if not c:
            continue
        checks.append({
            'property_id': pid,
            'quick_cmd': f'bin/check {pid} --tier quick',
            'thorough_cmd': f'bin/check {pid} --tier thorough',
            'evidence_file': f'/verif/evidence/{pid}.json',
            'replay_cmd_template': f'bin/check {pid} --replay {{path}}',
            'engine': c['engine'],
            'level_claimed': {'category': 'model_checking', 'text': c['text'],
                              'design_ref': c['design_ref'] + ' (plan); DESIGN.md 8.1-8.5 (as built, findings, seeded changes)'},
            'level_note': c['note'],
            'technique': c['technique'],
        })
    engines = {}
    for pid, c in CLAIMED.items():
        engines.setdefault(c['engine'], []).append(pid)
    m = {
        'version': 1,
        'setup_cmd': 'bin/setup',
        'hooks': {'guard': 'SUPVISORS_VERIF',
                  'enable': 'no source hook is needed: every observation goes through public surfaces of the real '
                            'objects (XML-RPC interface, simulated wire, external publisher, logger); the guard name '
                            'is reserved',
                  'baseline_off_cmd': BASE_CMD, 'source_commits': [], 'add_only': True},
        'engines': [{'name': e, 'path': f'spec/{e}.tla', 'serves_properties': sorted(p),
                     'kind_free_text': 'TLA+ specification checked by TLC (E1), replayed into the real code (E2) and '
                                       'used as monitor over recorded implementation observations (E3)'}
                    for e, p in sorted(engines.items())],
        'checks': checks,
        'notes': 'All checks: bin/check <ID> --tier quick|thorough; exit 0 held / 1 VIOLATION / 2 machinery failure. '
                 'Known findings: known_findings.json (signatures are TLA+ predicates in the monitors, or dict signatures for the definition-level checks); seeded changes and their outcome: seeded/RESULTS.md; tools/muteval.sh re-evaluates one.',
        'not_applicable': [{'property_id': i, 'reason': PENDING_REASON} for i in ids if i not in CLAIMED],
    }
    with open(os.path.join(HERE, 'MANIFEST.json'), 'w') as f:
        json.dump(m, f, indent=1)
    try:
        import jsonschema
        jsonschema.validate(m, json.load(open('/root/.vp/MANIFEST.schema.json')))
        print('manifest valid;', len(checks), 'checks claimed')
    except ImportError:
        print('jsonschema not available; manifest written unchecked')


main()
