#!/usr/bin/env python3
"""Evaluates every seeded change under /verif/seeded against the checks that are meant to catch it (3 at a time) and
records the outcome in seeded/<ID>/meta.json ('ran', 'result') and seeded/RESULTS.md."""
import concurrent.futures as cf
import json
import os
import re
import subprocess
import sys

HERE = os.path.dirname(os.path.dirname(os.path.abspath(__file__)))
EXTRA = {"C12_r3m1": ["C12", "C10"], "C11_r3m3": ["C11", "C05"], "C11_r3m2": ["C11", "C12"], "C03_r3m1": ["C03", "C06"], 'C07_m3': ['C11', 'C07'], 'C08_m1': ['C08', 'C10'], 'C07_m1': ['C07', 'C16'], 'C09_m1': ['C09', 'C10'],
         'C14_m2': ['C14', 'C04'], 'C16_m1': ['C16'], 'C01_m3': ['C01', 'C05'], 'C10_m1': ['C10', 'C08'],
         'C10_m3': ['C10', 'C09'], 'C03_m1': ['C03', 'C10']}


def one(mid):
    checks = EXTRA.get(mid, [mid.split('_')[0]])          # (C01_r2m1 -> C01)
    out = subprocess.run(['tools/muteval.sh', f'seeded/{mid}'] + checks, cwd=HERE, capture_output=True, text=True,
                         timeout=6000).stdout
    res = []
    for line in out.splitlines():
        m = re.match(r'RESULT (\S+) check=(\S+) rc=(\d+) secs=(\d+) (\d+) violations;\s*(.*)', line)
        if m:
            res.append({'check': m.group(2), 'rc': int(m.group(3)), 'secs': int(m.group(4)),
                        'violations': int(m.group(5)), 'first': m.group(6)[:300]})
        elif 'APPLY-FAILED' in line:
            res.append({'check': '-', 'rc': -1, 'secs': 0, 'violations': 0, 'first': 'patch does not apply on the current /repo HEAD'})
    return mid, res


def main():
    only = sys.argv[1:]
    mids = sorted(d for d in os.listdir(os.path.join(HERE, 'seeded'))
                  if os.path.isdir(os.path.join(HERE, 'seeded', d)) and (not only or d in only or d.split('_')[0] in only))
    head = subprocess.run(['git', '-C', '/repo', 'log', '--format=%h', '-1'], capture_output=True, text=True).stdout.strip()
    with cf.ThreadPoolExecutor(max_workers=3) as ex:
        for mid, res in ex.map(one, mids):
            mp = os.path.join(HERE, 'seeded', mid, 'meta.json')
            meta = json.load(open(mp)) if os.path.exists(mp) else {}
            meta['ran'] = [f"tools/muteval.sh seeded/{mid} {r['check']} (worktree of /repo {head} + patch.diff, "
                           f"bin/check {r['check']} --tier quick with PYTHONPATH on the worktree)" for r in res]
            meta['result'] = res
            meta['caught_by'] = sorted({r['check'] for r in res if r['rc'] == 1 and r['violations'] > 0})
            json.dump(meta, open(mp, 'w'), indent=1)
            print(mid, 'CAUGHT by ' + ','.join(meta['caught_by']) if meta['caught_by'] else 'MISSED', flush=True)
    rows = []
    for d in sorted(os.listdir(os.path.join(HERE, 'seeded'))):
        mp = os.path.join(HERE, 'seeded', d, 'meta.json')
        if os.path.exists(mp):
            meta = json.load(open(mp))
            if 'result' in meta:
                rows.append(f"| {d} | {meta.get('summary', '')[:160].replace('|', '/')} | "
                            f"{', '.join(r['check'] + ('=caught' if r['rc'] == 1 and r['violations'] else '=missed') for r in meta['result'])} |")
    with open(os.path.join(HERE, 'seeded', 'RESULTS.md'), 'w') as f:
        f.write('| seeded change | what | checks run (quick tier) |\n|---|---|---|\n' + '\n'.join(rows) + '\n')


if __name__ == '__main__':
    main()
