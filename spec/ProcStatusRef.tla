--------------------------- MODULE ProcStatusRef ---------------------------
(* C11 - reference semantics of the process status synthesis, written from the property statement only.       *)
(* The ghost record r is a function of the history of operations; ObsOK(r, obs) says which observations        *)
(* (get_process_info / get_conflicts / get_inner_process_info) the statement admits after that history.        *)
(* The SAME formulas are evaluated by TLC on the states of the model (ProcStatus.tla) and on the observations  *)
(* recorded from the real code (ProcStatusMon.tla).                                                            *)
EXTENDS Naturals, Sequences, FiniteSets

CONSTANT K
Inst == 1..K
RunningS == {"STARTING", "BACKOFF", "RUNNING"}
StoppedS == {"STOPPED", "EXITED", "FATAL", "UNKNOWN"}
PStates == RunningS \cup StoppedS \cup {"STOPPING"}
ForcedS == {"FATAL", "STOPPED"}     \* what Supvisors forces when a start / stop is given up
None == <<>>                         \* "no report from this instance"

Without(s, j) == SelectSeq(s, LAMBDA x: x # j)

\* last[j]: None or <<state, expected>>; order: instances by reception of their last report (most recent last);
\* running: where the process is listed; forced: SET of admissible overrides; stale: displays still admissible
\* after a removal (the statement does not say that removing a non-running entry refreshes the display)
\* taint: known findings (known_findings.json) met by this history; the formulas are not evaluated after them
RefInit == [last |-> [j \in Inst |-> None], order |-> <<>>, running |-> {}, forced |-> {"NONE"}, stale |-> {},
            taint |-> {}]

\* F15: an instance is lost while the process is STOPPING there and runs nowhere else: the pinned code only
\* invalidates processes whose synthetic state is STARTING/BACKOFF/RUNNING (SupvisorsInstanceStatus.
\* running_processes), so the entry stays STOPPING and listed on the lost instance.
Known_F15(r, op) == /\ op.o = "Invalidate" /\ op.j \in r.running
                    /\ ~(\E k \in r.running : r.last[k][1] \in RunningS)

RExists(r) == \E j \in Inst : r.last[j] # None

RefStates(r) ==
  IF Cardinality(r.running) = 1
  THEN {r.last[CHOOSE k \in r.running : TRUE][1]}
  ELSE IF Cardinality(r.running) >= 2
  THEN LET S == {r.last[k][1] : k \in r.running}
       IN IF "RUNNING" \in S THEN {"RUNNING"}
          ELSE IF S \cap {"STARTING", "BACKOFF"} # {} THEN S \cap {"STARTING", "BACKOFF"}
          ELSE {"STOPPING"}
  ELSE IF \E k \in Inst : r.last[k] # None /\ r.last[k][1] = "STOPPING" THEN {"STOPPING"}
  ELSE IF r.order = <<>> THEN PStates
  ELSE {r.last[r.order[Len(r.order)]][1]}

\* the expected_exit flag is only prescribed together with a stopped-like display
RefExpected(r) ==
  IF r.running = {} /\ r.order # <<>> /\ ~(\E k \in Inst : r.last[k] # None /\ r.last[k][1] = "STOPPING")
  THEN {r.last[r.order[Len(r.order)]][2]}
  ELSE BOOLEAN

RefShown(r) == {<<s, e>> : s \in RefStates(r), e \in RefExpected(r)}

Report(r, j, s, e) ==
  [r EXCEPT !.last[j] = <<s, e>>,
            !.order = Append(Without(r.order, j), j),
            !.running = IF s \in RunningS THEN r.running \cup {j}
                        ELSE IF s \in StoppedS THEN r.running \ {j}
                        ELSE r.running,
            !.stale = {}]

\* op: [o |-> "Add"|"Event", j, s, e] / [o |-> "Force", j, s, fresh] / [o |-> "Invalidate", j] / [o |-> "Remove", j]
RefStep0(r, op) ==
  CASE op.o = "Add" ->
         \* a snapshot other than STOPPED ends an override; the statement is silent about a STOPPED snapshot
         [Report(r, op.j, op.s, op.e) EXCEPT
            !.forced = IF op.s # "STOPPED" THEN {"NONE"} ELSE r.forced \cup {"NONE"}]
    [] op.o = "Event" -> [Report(r, op.j, op.s, op.e) EXCEPT !.forced = {"NONE"}]
    [] op.o = "Force" ->
         \* dismissed when newer information from the targeted instance has already arrived
         IF op.j \in Inst /\ r.last[op.j] # None /\ ~op.fresh THEN r ELSE [r EXCEPT !.forced = {op.s}]
    [] op.o = "Invalidate" ->
         \* what ran there becomes FATAL (unexpected), other entries untouched
         IF op.j \in r.running THEN [Report(r, op.j, "FATAL", FALSE) EXCEPT !.forced = {"NONE"}] ELSE r
    [] op.o = "Remove" ->
         LET nl == [r.last EXCEPT ![op.j] = None]
         IN IF \A k \in Inst : nl[k] = None THEN RefInit
            ELSE [r EXCEPT !.last = nl, !.order = Without(r.order, op.j), !.running = r.running \ {op.j},
                           !.stale = IF op.j \in r.running THEN {} ELSE r.stale \cup RefShown(r)]
    [] OTHER -> r

RefStep(r, op) == LET n == RefStep0(r, op)
                  IN IF Known_F15(r, op) THEN [n EXCEPT !.taint = n.taint \cup {"F15"}] ELSE n

\* obs: [exists, state (synthetic, before override), displayed, expected, ids (set), conflict, inner (per instance)]
RunningOK(r, obs) == obs.ids = r.running
ConflictOK(r, obs) == obs.conflict = (Cardinality(obs.ids) >= 2)
ShownOK(r, obs) == <<obs.state, obs.expected>> \in RefShown(r) \cup r.stale
ForcedOK(r, obs) == \/ "NONE" \in r.forced /\ obs.displayed = obs.state
                    \/ obs.displayed \in r.forced
InnerOK(r, obs) == \A j \in Inst : obs.inner[j] = r.last[j]

ObsOK(r, obs) == IF r.taint # {} THEN TRUE
                 ELSE IF ~RExists(r) THEN ~obs.exists
                 ELSE /\ obs.exists
                      /\ RunningOK(r, obs) /\ ConflictOK(r, obs) /\ ShownOK(r, obs) /\ ForcedOK(r, obs)
                      /\ InnerOK(r, obs)
=============================================================================
