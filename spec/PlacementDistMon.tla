-------------------------- MODULE PlacementDistMon --------------------------
(* C14 (distribution rules) monitor. One record per application start observed on real cores:                      *)
(*   dist "SINGLE_INSTANCE" | "SINGLE_NODE"; strategy; n, node, running, load (as the requester reports them)      *)
(*   allowed: the APPLICATION identifiers rule (declared order); knows: [program index -> [instance -> BOOLEAN]]   *)
(*   seq: indexes of the programs in the start sequence (sequence > 0); total: their summed expected_loading       *)
(*   targets: sequence of <<program index, instance>> for each START request seen; err                             *)
EXTENDS Placement, TLC, Json, IOUtils

Recs == JsonDeserialize(IOEnv.RECS_FILE)
ToSet(q) == {q[i] : i \in DOMAIN q}

Failed(r) ==
  LET I == 1..r.n
      seq == ToSet(r.seq)
      tg == ToSet(r.targets)
      insts == {x[2] : x \in tg}
      knowsAll(i) == \A p \in seq : r.knows[p][i]
      s0(kn) == [n |-> r.n, node |-> r.node, running |-> r.running, knows |-> kn,
                 disabled |-> [i \in I |-> FALSE], allowed |-> r.allowed, load |-> r.load,
                 pend |-> [i \in I |-> 0], L |-> r.total, strategy |-> r.strategy, req |-> 1]
      sAll == s0([i \in I |-> knowsAll(i)])
      \* instances able to take the whole start sequence
      whole == EligibleSet(sAll)
      started == {x[1] : x \in tg}
      basic == \A x \in tg : x[1] \in seq /\ r.running[x[2]] /\ x[2] \in ToSet(r.allowed) /\ r.knows[x[1]][x[2]]
      once == \A p \in seq : Cardinality({k \in DOMAIN r.targets : r.targets[k][1] = p}) <= 1
  IN (IF r.err # "" THEN {"NoErr"} ELSE {})
     \cup (IF basic /\ once THEN {} ELSE {"C14.DistBasic"})
     \cup (IF r.dist = "SINGLE_INSTANCE"
           THEN (IF whole = {} \/ Choice(sAll) = {0} THEN (IF tg = {} THEN {} ELSE {"C14.SingleInstance"})
                 ELSE IF Cardinality(insts) = 1 /\ started = seq /\ insts \subseteq whole
                           /\ insts \subseteq Choice(sAll) THEN {} ELSE {"C14.SingleInstance"})
           ELSE {})
     \cup (IF r.dist = "SINGLE_NODE"
           THEN LET nodes == {r.node[i] : i \in insts}
                    \* a node can take the application when, for each program, one of its running allowed instances
                    \* knows it, and its load leaves room for the whole start sequence
                    fits(nd) == /\ \A p \in seq : \E i \in I : r.node[i] = nd /\ r.running[i] /\ i \in ToSet(r.allowed)
                                                               /\ r.knows[p][i]
                                /\ \E i \in I : r.node[i] = nd /\ NodeLoad(sAll, i) + r.total <= 100
                IN IF r.strategy = "LOCAL" THEN (IF Cardinality(nodes) <= 1 THEN {} ELSE {"C14.SingleNode"})
                   ELSE IF ~(\E nd \in ToSet(r.node) : fits(nd)) THEN (IF tg = {} THEN {} ELSE {"C14.SingleNode"})
                   ELSE IF Cardinality(nodes) = 1 /\ started = seq /\ (\A nd \in nodes : fits(nd)) THEN {}
                   ELSE {"C14.SingleNode"}
           ELSE {})

\* F14: SINGLE_NODE where the instances of the chosen node do not all know every program of the sequence
Known_F14(r) == r.dist = "SINGLE_NODE" /\ \E p \in ToSet(r.seq), i \in 1..r.n : r.running[i] /\ ~r.knows[p][i]

Check(i) == LET f == Failed(Recs[i])
            IN IF f = {} THEN TRUE
               ELSE IF Known_F14(Recs[i]) /\ f \subseteq {"NoErr", "C14.SingleNode", "C14.DistBasic"}
                    THEN PrintT("K " \o ToJson([i |-> i, known |-> {"F14"}]))
                    ELSE PrintT("V " \o ToJson([i |-> i, failed |-> f]))
ASSUME PrintT("N " \o ToString(Len(Recs)))
ASSUME \A i \in 1..Len(Recs) : Check(i)
=============================================================================
