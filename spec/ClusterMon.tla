----------------------------- MODULE ClusterMon -----------------------------
(* Monitor: the formulas of ClusterProps evaluated by TLC on traces recorded from the real code (SimCluster).  *)
(* One behaviour per trace; every step with a failing formula is printed ("V" lines), as is the terminal       *)
(* classification of traces that ended with fair quiet rounds ("E" lines). Nothing else decides a verdict.      *)
EXTENDS ClusterProps, TLC, Json, IOUtils

Traces == JsonDeserialize(IOEnv.TRACE_FILE)

VARIABLES ti, k, g, prev
mvars == <<ti, k, g, prev>>

ToSet(s) == {s[i] : i \in DOMAIN s}

\* JSON step -> step record
Rec(x, pre) == [a |-> x.a, n |-> x.n, d |-> x.d, k |-> x.k, pre |-> pre, post |-> x.post,
                pubs |-> x.pubs, ipubs |-> x.ipubs, push |-> x.push, fails |-> ToSet(x.fails),
                err |-> x.err, iso |-> x.iso, snapchg |-> x.snapchg, user |-> x.user, nfail |-> x.nfail,
                nonadm |-> x.nonadm, procchg |-> x.procchg, hang |-> x.hang]

Init == /\ ti \in 1..Len(Traces)
        /\ k = 0
        /\ g = GhostInit
        /\ prev = Traces[ti].init

Report(tag, t, s, f) == IF f = {} THEN TRUE ELSE PrintT(tag \o ToJson([t |-> t, s |-> s, f |-> f]))

Step == /\ k < Len(Traces[ti].steps)
        /\ LET r == Rec(Traces[ti].steps[k + 1], prev)
           IN /\ Report("V ", Traces[ti].id, k + 1, StepFailures(g, r))
              /\ g' = GhostStep(g, r)
              /\ prev' = r.post
        /\ k' = k + 1 /\ ti' = ti

End == /\ k = Len(Traces[ti].steps)
       /\ IF Traces[ti].fair THEN Report("E ", Traces[ti].id, k, TerminalFailures(prev, Traces[ti].ended)) ELSE TRUE
       /\ PrintT("D " \o ToString(Traces[ti].id))
       /\ k' = k + 1 /\ UNCHANGED <<ti, g, prev>>

Next == Step \/ End
Spec == Init /\ [][Next]_mvars
=============================================================================
