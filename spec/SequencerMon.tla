---------------------------- MODULE SequencerMon ----------------------------
(* C03 / C09 / C10 monitor over sequencing scenarios recorded from real cores (checks/seq_lib.py).                 *)
(* A trace: procs (sequence of [name, app, seq, stopseq, wait_exit, required, target, startsecs]), apps (sequence  *)
(* of [name, seq, stopseq, strategy]), trigger, trigger_app, trigger_step, n (instances), steps.                   *)
(* A step: a, n, user, reqs (sequence of <<kind, sender, target, process index>>), truth [process -> [instance ->  *)
(* true Supervisor state]], views [instance -> [process -> displayed state]], jobs [instance -> <<starting,        *)
(* stopping>>], fsm, master, alive, orders (sequence of <<instance, order>>), err.                                  *)
EXTENDS Naturals, Sequences, FiniteSets, TLC, Json, IOUtils

Traces == JsonDeserialize(IOEnv.TRACE_FILE)

VARIABLES ti, k, g
mvars == <<ti, k, g>>

ToSet(q) == {q[i] : i \in DOMAIN q}
RunningLike == {"STARTING", "RUNNING", "BACKOFF"}
Busy == RunningLike \cup {"STOPPING"}
StoppedLike == {"STOPPED", "EXITED", "EXITED_OK", "EXITED_KO", "FATAL", "UNKNOWN"}

T == Traces[ti]
P == DOMAIN T.procs
AppIdx(name) == CHOOSE a \in DOMAIN T.apps : T.apps[a].name = name
AppOf(p) == AppIdx(T.procs[p].app)
Ceil5(x) == (x + 4) \div 5

\* ghost: requested / stop-requested processes, number of ticks of instance 1 since the last request, applications
\* whose start was given up (required process failed under ABORT / STOP), lost targets, orders received
\* ran / exok: processes truly seen RUNNING / exited as expected since their request; acked: seen busy since then
GInit == [req |-> {}, sreq |-> {}, since |-> 0, aborted |-> {}, lost |-> {}, orders |-> [i \in 1..8 |-> 0],
          everAlive |-> {}, ran |-> {}, exok |-> {}, stamp |-> <<>>, preq |-> {}, stamp0 |-> <<>>, elect |-> FALSE,
          plans |-> 0,        \* number of plans opened after the first one (user triggers, re-distributions)
          reqby |-> <<>>,     \* reqby[p]: the instance that sent the last start request of p
          utrig |-> FALSE,    \* the user's request has been issued
          sreqby |-> <<>>]    \* sreqby[p]: same for the last stop request   \* preq: requested by the current plan   \* stamp[p][v]: refresh stamp of p at v when p was requested

Truth(st, p, i) == st.truth[p][i]
RunsSomewhere(st, p) == \E i \in 1..T.n : Truth(st, p, i) \in RunningLike
BusySomewhere(st, p) == \E i \in 1..T.n : Truth(st, p, i) \in Busy
View(st, i, p) == st.views[i][p]

\* p has finished starting or has been given up, as far as instance v (the requester) can tell
\* (a view still STOPPED right after the request is not a give-up: STOPPED only counts once the start was seen)
\* a stopped-like display counts once the displayed information was refreshed after the request (an event or a forced
\* state was taken into account): what was shown before the request says nothing about this start
Stamp(st, i, p) == st.stamps[i][p]
\* never requested and displayed FATAL although no Supervisor has it FATAL: forced by Supvisors ('No resource
\* available': the process could not be placed)
\* (what was displayed before the plan began says nothing about this plan: the display must have been refreshed)
NoResource(st, gg, p, v) == /\ p \notin gg.preq /\ View(st, v, p) = "FATAL" /\ \A i \in 1..T.n : Truth(st, p, i) # "FATAL"
                            /\ gg.stamp0 # <<>> /\ Stamp(st, v, p) # gg.stamp0[p][v]
\* (a requested process displayed STOPPING: somebody - another instance's plan, a user - asked to stop it while it was
\*  starting; the requester gives this start up at once)
GivenUp(st, gg, p, v) == \/ p \in gg.req /\ ((View(st, v, p) \in StoppedLike \cup {"STOPPING"} /\ Stamp(st, v, p) # gg.stamp[p][v])
                                            \/ p \in gg.lost \/ ~st.alive[T.procs[p].target])
                         \/ NoResource(st, gg, p, v)
Done(st, gg, p, v) ==
  \/ ~T.procs[p].wait_exit /\ (p \in gg.ran \/ \E i \in 1..T.n : Truth(st, p, i) = "RUNNING")
  \/ T.procs[p].wait_exit /\ (p \in gg.exok \/ \E i \in 1..T.n : Truth(st, p, i) = "EXITED_OK")
  \/ GivenUp(st, gg, p, v)
  \* the requester does not know the process (no instance it has heard of configures the program)
  \/ View(st, v, p) = "NONE"

\* the start of application a has been given up before this step
\* (a required process that started and was lost afterwards is a running failure, not a starting failure)
AbortNow(st, gg, a, v) == \E r \in gg.preq \cup {x \in P : T.procs[x].seq > 0 /\ NoResource(st, gg, x, v)} :
                                      AppOf(r) = a /\ T.procs[r].required /\ GivenUp(st, gg, r, v)
                                      /\ r \notin (IF T.procs[r].wait_exit THEN gg.exok ELSE gg.ran)
                                      /\ T.procs[r].fstrategy \in {"ABORT", "STOP"}

\* ... by a required process whose starting failure strategy (its own, else the application's) is STOP
StopAsked(st, gg, a) == \E r \in gg.preq : AppOf(r) = a /\ T.procs[r].required /\ T.procs[r].fstrategy = "STOP"
                                            /\ r \notin (IF T.procs[r].wait_exit THEN gg.exok ELSE gg.ran)
                                            /\ \E v \in 1..T.n : GivenUp(st, gg, r, v)

AutoTrigger == T.trigger \in {"distribution", "restart_sequence"}

ReqFailures(st, gg, rq) ==
  LET kind == rq[1]   v == rq[2]   tgt == rq[3]   q == rq[4]
      a == AppOf(q)
  IN IF kind = "START"
     THEN (IF \A p \in P : (AppOf(p) = a /\ T.procs[p].seq > 0 /\ T.procs[p].seq < T.procs[q].seq)
                            => Done(st, gg, p, v) THEN {} ELSE {"C03.ProcOrder"})
          \* the first automatic plan from a cold start holds every application with a start_sequence: all the lower
          \* ones must be done. A later plan (re-distribution after a join, restart_sequence) only holds the
          \* applications never started or in failure: the order is judged among what the plan requests - what it
          \* requested of lower applications is done, and nothing of a higher application was requested before.
          \cup (IF AutoTrigger =>
                     IF gg.plans = 0 /\ T.trigger = "distribution"
                     THEN \A p \in P : (AppOf(p) # a /\ T.apps[AppOf(p)].seq > 0 /\ T.apps[AppOf(p)].seq < T.apps[a].seq
                                        /\ T.procs[p].seq > 0)
                                       => (Done(st, gg, p, v) \/ AbortNow(st, gg, AppOf(p), v)
                                           \/ \E w \in 1..T.n : st.alive[w] /\ GivenUp(st, gg, p, w))
                     ELSE /\ \A p \in gg.preq : (AppOf(p) # a /\ T.apps[AppOf(p)].seq > 0
                                                  /\ T.apps[AppOf(p)].seq < T.apps[a].seq)
                                                 => (Done(st, gg, p, v) \/ AbortNow(st, gg, AppOf(p), v)
                                                     \/ \E w \in 1..T.n : st.alive[w] /\ GivenUp(st, gg, p, w))
                          /\ \A p \in gg.preq : AppOf(p) = a \/ T.apps[AppOf(p)].seq <= T.apps[a].seq
                                                 \/ T.apps[a].seq = 0
                THEN {} ELSE {"C03.AppOrder"})
          \cup (IF T.procs[q].seq > 0 /\ (AutoTrigger => T.apps[a].seq > 0) THEN {} ELSE {"C03.ZeroNeverAuto"})
          \cup (IF a \notin gg.aborted THEN {} ELSE {"C03.FailureStrategy"})
          \cup (IF ~RunsSomewhere(st, q) THEN {} ELSE {"C04.NoDuplicate"})
     ELSE \* STOP
          (IF \A p \in P : (AppOf(p) = a /\ T.procs[p].stopseq > T.procs[q].stopseq)
                            => (~BusySomewhere(st, p) \/ (p \in gg.sreq /\ View(st, v, p) \in StoppedLike)
                                \/ p \in gg.lost)
           THEN {} ELSE {"C09.StopOrder"})
          \cup (IF T.trigger \in {"restart", "shutdown", "restart_sequence"} =>
                     \A p \in P : (AppOf(p) # a /\ T.apps[AppOf(p)].stopseq > T.apps[a].stopseq)
                                  => (~BusySomewhere(st, p) \/ (p \in gg.sreq /\ View(st, v, p) \in StoppedLike)
                                      \/ p \in gg.lost)
                THEN {} ELSE {"C09.AppStopOrder"})
          \* (a target that just died is still seen running by the requester until it is invalidated)
          \cup (IF Truth(st, q, tgt) \in Busy \/ ~st.alive[tgt] THEN {} ELSE {"C09.StopWhereRunning"})

\* requests emitted outside a user XML-RPC come from the Master, or concern the application the user touched there
\* (what an instance does after a user XML-RPC issued on it is the user's request, not an automatic action)
MasterOnly(st, rq) == st.user \/ st.master[rq[2]] = rq[2] \/ rq[2] = T.trigger_node

Bound == 4 + Ceil5(LET S == {T.procs[p].startsecs : p \in P} IN CHOOSE x \in S : \A y \in S : x >= y) + 5

StepFailures(st, gg) ==
  UNION {ReqFailures(st, gg, st.reqs[i]) : i \in DOMAIN st.reqs}
  \cup (IF \A i \in DOMAIN st.reqs : MasterOnly(st, st.reqs[i]) THEN {} ELSE {"C01.MasterOnlyAuto"})
  \cup (IF st.err THEN {"C16.NoInternalError"} ELSE {})
  \* C10: jobs are not reported in progress for ever after the last request
  \cup (IF T.wait_exit_forever \/ gg.since <= Bound
           \/ \A i \in 1..T.n : ~(st.alive[i] /\ (st.jobs[i][1] \/ st.jobs[i][2]))
        THEN {} ELSE {"C10.Bounded"})
  \* C09: a Supervisor only gets its restart / shutdown order once everything is stopped (or given up)
  \cup (IF \A i \in DOMAIN st.orders :
              \A p \in P : ~(\E j \in 1..T.n : st.alive[j] /\ Truth(st, p, j) \in RunningLike)
                           \/ p \in gg.sreq
        THEN {} ELSE {"C09.OrderAfterStop"})

\* a user trigger opens a new plan: what was given up by an earlier plan does not bind it
GReset(gg, pre) == [gg EXCEPT !.aborted = {}, !.preq = {}, !.since = 0, !.elect = FALSE, !.plans = @ + 1,
                                 !.stamp0 = [p \in P |-> [v \in 1..T.n |-> Stamp(pre, v, p)]]]

\* a new automatic plan: a Master (re-)enters DISTRIBUTION (e.g. after instances joined)
NewDistribution(st, pre) == \E v \in 1..T.n : st.alive[v] /\ st.master[v] = v /\ st.fsm[v] = "DISTRIBUTION"
                                               /\ pre.fsm[v] # "DISTRIBUTION"

GStep(st, pre, gg0) ==
  LET gg == IF st.user \/ NewDistribution(st, pre) THEN GReset(gg0, pre) ELSE (IF gg0.stamp0 = <<>> THEN [gg0 EXCEPT !.stamp0 = [p \in P |-> [v \in 1..T.n |-> Stamp(pre, v, p)]]] ELSE gg0)
      starts == {st.reqs[i][4] : i \in {j \in DOMAIN st.reqs : st.reqs[j][1] = "START"}}
      stops == {st.reqs[i][4] : i \in {j \in DOMAIN st.reqs : st.reqs[j][1] = "STOP"}}
      req1 == gg.req \cup starts
      stamp1 == [p \in P |-> IF p \in starts \/ gg.stamp = <<>> THEN [v \in 1..T.n |-> Stamp(st, v, p)] ELSE gg.stamp[p]]
      lost1 == gg.lost \cup {p \in req1 : ~st.alive[T.procs[p].target]}
      \* (Supervisor only reaches EXITED from RUNNING: an exited process did run)
      ran1 == (gg.ran \ starts) \cup {p \in req1 \ starts : \E i \in 1..T.n :
                                         Truth(st, p, i) \in {"RUNNING", "EXITED_OK", "EXITED_KO"}
                                         \/ (st.alive[i] /\ View(st, i, p) = "RUNNING")}
      exok1 == (gg.exok \ starts) \cup {p \in req1 \ starts : \E i \in 1..T.n : Truth(st, p, i) = "EXITED_OK"}
      reqby1 == [p \in P |-> IF \E j \in DOMAIN st.reqs : st.reqs[j][1] = "START" /\ st.reqs[j][4] = p
                              THEN (CHOOSE x \in {st.reqs[j][2] : j \in {y \in DOMAIN st.reqs : st.reqs[y][1] = "START"
                                                                                                  /\ st.reqs[y][4] = p}} : TRUE)
                              ELSE IF gg.reqby = <<>> THEN 0 ELSE gg.reqby[p]]
      sreqby1 == [p \in P |-> IF \E j \in DOMAIN st.reqs : st.reqs[j][1] = "STOP" /\ st.reqs[j][4] = p
                               THEN (CHOOSE x \in {st.reqs[j][2] : j \in {y \in DOMAIN st.reqs : st.reqs[y][1] = "STOP"
                                                                                                   /\ st.reqs[y][4] = p}} : TRUE)
                               ELSE IF gg.sreqby = <<>> THEN 0 ELSE gg.sreqby[p]]
      g2 == [gg EXCEPT !.reqby = reqby1, !.sreqby = sreqby1, !.req = req1, !.sreq = (@ \ starts) \cup stops, !.stamp = stamp1, !.lost = lost1, !.ran = ran1,
                       !.exok = exok1, !.preq = @ \cup starts]
      \* the instance that runs the plan: where the user issued the trigger, else the Master
      \* (before the user's request, the plans are the automatic ones of the Master)
      planners == IF T.trigger_node # 0 /\ (gg0.utrig \/ st.user) THEN {T.trigger_node}
                  ELSE {v \in 1..T.n : st.alive[v] /\ st.master[v] = v}
      ab == {a \in DOMAIN T.apps : \E v \in planners : st.alive[v] /\ AbortNow(st, g2, a, v)}
  IN [g2 EXCEPT !.aborted = gg.aborted \cup ab,
                \* F22: the instance running a plan entered ELECTION (all its jobs are aborted there)
                !.elect = @ \/ (g2.preq # {} /\ \E v \in planners : st.alive[v] /\ st.fsm[v] = "ELECTION"),
                !.since = IF st.reqs # <<>> THEN 0 ELSE IF st.a = "Tick" /\ st.n = 1 THEN @ + 1 ELSE @,
                !.orders = [i \in 1..8 |-> gg.orders[i] + Cardinality({j \in DOMAIN st.orders : st.orders[j][1] = i})],
                !.everAlive = @ \cup {i \in 1..T.n : st.alive[i]},
                !.utrig = @ \/ st.user]

\* terminal formulas (the trace ran long enough for every job to end)
Terminal(st, gg) ==
  LET v == CHOOSE i \in 1..T.n : st.alive[i]
  IN \* STOP strategy: the application given up is stopped
     \* (STOP only happens once the in-flight starts end: not demanded when a wait_exit program never exits)
     \* (the instance that ran the plan must still be there to stop anything)
     (IF T.wait_exit_forever \/ (T.trigger_node # 0 /\ ~st.alive[T.trigger_node])
         \/ \A a \in gg.aborted : StopAsked(st, gg, a) =>
             \A p \in P : AppOf(p) = a => (~RunsSomewhere(st, p) \/ p \in gg.sreq)
      THEN {} ELSE IF gg.elect THEN {"KNOWN.F22"} ELSE {"C03.StopStrategy"})
     \* CONTINUE / optional failures: the plan went on to the end
     \* (judged on the automatic distribution from a cold start: one single plan)
     \cup (IF (T.trigger = "distribution" /\ gg.plans = 0 /\ ~T.wait_exit_forever) =>
                \A p \in P : (T.procs[p].seq > 0 /\ AppOf(p) \notin gg.aborted
                              /\ (AutoTrigger => T.apps[AppOf(p)].seq > 0)
                              /\ (T.trigger = "start_application" => T.procs[p].app = T.trigger_app)
                              /\ (\A r \in P : (AppOf(r) = AppOf(p) /\ T.procs[r].wait_exit) => T.procs[r].behaviour # "normal"))
                             \* requested, or running, or given up without request (FATAL 'No resource available')
                             => (p \in gg.req \/ RunsSomewhere(st, p) \/ (\E i \in 1..T.n : Truth(st, p, i) = "EXITED_OK")
                                 \/ \E i \in 1..T.n : st.alive[i] /\ View(st, i, p) = "FATAL")
           THEN {} ELSE {"C03.PlanCompleted"})
     \* what was given up is displayed as not running everywhere
     \* (a start that was abandoned: requested, never seen RUNNING in truth, not busy now)
     \* (a truly FATAL process was not abandoned: its failure was reported by Supervisor itself)
     \cup (IF \A p \in gg.req \ (gg.ran \cup gg.exok) :
                (~BusySomewhere(st, p) /\ \A i \in 1..T.n : Truth(st, p, i) # "FATAL") =>
                \A i \in 1..T.n : st.alive[i] => View(st, i, p) \notin Busy
           THEN {} ELSE {"C10.GiveUpVisible"})
     \* ... a stop that was abandoned (or whose STOPPED event was lost) is displayed as not running everywhere
     \* (F15: an instance lost while the process is STOPPING there leaves STOPPING displayed - listed finding)
     \* (when events are dropped by the scenario - for every remote receiver - only the instance that asked for the
     \* stop can notice and repair: the others are judged when nothing is dropped)
     \* (... which is the case when the requester is the host of the process: it gets the real event locally, nothing
     \* times out, nothing is forced. A requester that is NOT the host misses the event like everybody else, forces the
     \* state after its timeout and publishes it: then everybody is judged)
     \* (a requester that died cannot force anything either)
     \cup (LET judged(p) == IF T.has_drops /\ (gg.sreqby[p] \in {0, T.procs[p].target} \/ ~st.alive[gg.sreqby[p]]
                                               \/ gg.sreqby[p] \notin gg.everAlive)
                            THEN {gg.sreqby[p]} \ {0} ELSE 1..T.n
               bad == {p \in gg.sreq : ~BusySomewhere(st, p) /\ \E i \in judged(p) : st.alive[i] /\ View(st, i, p) \in Busy}
           IN IF bad = {} THEN {}
              ELSE IF \A p \in bad : ~st.alive[T.procs[p].target]
                                      /\ \A i \in 1..T.n : st.alive[i] => View(st, i, p) \notin (Busy \ {"STOPPING"})
                   THEN {"KNOWN.F15"} ELSE {"C10.GiveUpVisible"})
     \* ... and an abandoned start is reported FATAL (the target is still there and never had the process running:
     \* the request or its events were lost): by the instance that ran the plan for sure; F23: another instance may
     \* dismiss the forced state when its own record of the process is younger than the requester's
     \cup (LET abandoned == {p \in gg.req \ (gg.ran \cup gg.exok \cup gg.sreq) :
                              ~BusySomewhere(st, p) /\ st.alive[T.procs[p].target] /\ p \notin gg.lost
                              /\ \A i \in 1..T.n : Truth(st, p, i) \in {"STOPPED", "NONE"}}
           IN IF T.wait_exit_forever \/ gg.elect
                 \/ \A p \in abandoned : \A i \in 1..T.n : st.alive[i] => View(st, i, p) = "FATAL"
              THEN {}
              ELSE IF \A p \in abandoned : (gg.reqby[p] # 0 /\ st.alive[gg.reqby[p]]) => View(st, gg.reqby[p], p) = "FATAL"
                   THEN {"KNOWN.F23"} ELSE {"C10.GiveUpReported"})
     \cup (IF T.wait_exit_forever \/ \A i \in 1..T.n : ~(st.alive[i] /\ (st.jobs[i][1] \/ st.jobs[i][2]))
           THEN {} ELSE {"C10.Terminates"})
     \* C08: nobody stays parked in DISTRIBUTION (or anywhere else) once the sequences are over
     \cup (IF (T.wait_exit_forever \/ T.trigger \in {"restart", "shutdown"})
              \/ \A i \in 1..T.n : st.alive[i] => (st.fsm[i] \in {"OPERATION", "CONCILIATION"}
                                                    /\ ~st.jobs[i][1] /\ ~st.jobs[i][2])
           THEN {} ELSE {"C08.Progress"})
     \* restart / shutdown: exactly one order per instance, everybody ended
     \cup (IF T.trigger \in {"restart", "shutdown"} =>
                \A i \in gg.everAlive : (i \notin gg.lost_inst) => gg.orders[i] = 1
           THEN {}
           \* F19: the Master executed its own order before its last state publications left: nobody else ends
           ELSE IF T.race_order /\ (\E m \in gg.everAlive : gg.orders[m] = 1) /\ (\A i \in 1..T.n : gg.orders[i] <= 1)
                THEN {"KNOWN.F19"} ELSE {"C09.OrderOnce"})

Report(tag, t, s, f) == IF f = {} THEN TRUE ELSE PrintT(tag \o ToJson([t |-> t, s |-> s, f |-> f]))

Init == ti \in 1..Len(Traces) /\ k = 0 /\ g = GInit @@ [lost_inst |-> {}]

Step == /\ k < Len(T.steps)
        /\ LET st == T.steps[k + 1]
               pre == IF k = 0 THEN st ELSE T.steps[k]
               g1 == GStep(st, pre, g)
           IN /\ Report("V ", T.id, k + 1, StepFailures(st, [g1 EXCEPT !.aborted = IF st.user \/ NewDistribution(st, pre)
                                                                                   THEN {} ELSE g.aborted]))
              /\ g' = [g1 EXCEPT !.lost_inst = @ \cup {i \in g1.everAlive : ~st.alive[i] /\ g.orders[i] = 0
                                                                           /\ g1.orders[i] = 0}]
        /\ k' = k + 1 /\ ti' = ti

End == /\ k = Len(T.steps)
       /\ Report("E ", T.id, k, Terminal(T.steps[k], g))
       /\ PrintT("D " \o ToString(T.id))
       /\ k' = k + 1 /\ UNCHANGED <<ti, g>>

Next == Step \/ End
Spec == Init /\ [][Next]_mvars
=============================================================================
