SPECIFICATION Spec
CONSTANTS K = 3
          FixedRemove = TRUE
          D = 0
VIEW View
INVARIANT PExists
INVARIANT PRunning
INVARIANT PConflict
INVARIANT PShown
INVARIANT PForced
INVARIANT PInner
INVARIANT NoErr
