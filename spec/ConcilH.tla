------------------------------ MODULE ConcilH ------------------------------
(* Concil.tla with the history of user starts (and the phase of the Master when each happened): TLC enumerates the *)
(* skeletons that checks/c05.py replays on real cores, with the outcomes the design admits for each of them.       *)
EXTENDS Concil, Json

VARIABLE hist
varsH == <<vars, hist>>

InitH == Init /\ hist = <<>>
NextH == \/ \E p \in P, i \in I : /\ UserStart(p, i)
                                  /\ hist' = Append(hist, [p |-> p, i |-> i, fsm |-> fsm, idle |-> Idle,
                                                           seen |-> (q = <<>>)])
         \/ /\ (\E p \in P, i \in I : ExecStop(p, i) \/ Stopped(p, i) \/ ExecStart(p, i)) \/ MasterTick \/ Deliver
            /\ hist' = hist
SpecH == InitH /\ [][NextH]_varsH

Final == Quiet /\ hist # <<>> /\ (Strategy = "USER" \/ (fsm = "OPERATION" /\ Conflicts(view) = {}))
Outcome == [h |-> hist, left |-> [p \in P |-> {i \in I : truth[p][i] = "R"}], fsm |-> fsm]
SimLog == Final => PrintT("B " \o ToJson(Outcome))
=============================================================================
