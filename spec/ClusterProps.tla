---------------------------- MODULE ClusterProps ----------------------------
(* Property formulas of C01 C02 C07 C08 C13 C16 over OBSERVABLE step records. The same operators are evaluated  *)
(* by TLC on the steps of the model (Cluster.tla builds a record from its variables) and on the steps recorded *)
(* from the real code (ClusterMon.tla reads them from JSON).                                                   *)
(*                                                                                                             *)
(* A step record r has:                                                                                        *)
(*   a     "Tick" | "Proxy" | "Boot" | "Crash" | "Cut" | "Heal" | "Rpc" | "Env"                                *)
(*   n, d  acting instance, destination (0 when none); k: item kind for Proxy, method for Rpc                  *)
(*   pre, post   [Inst -> [alive, inc, fsm, master, inst, tick]]   (what the status XML-RPCs report)           *)
(*   pubs  sequence of Supvisors status publications of the step, in order:                                    *)
(*         [n, fsm, master, mstate (state of that Master in n's view), ist (n's view), decl (Masters declared  *)
(*          by the peers, as n stores them)]                                                                   *)
(*   ipubs sequence of instance status publications <<n, peer, state>>                                         *)
(*   push  sequence of <<src, dst, iso, type, what>>: items appended to proxy FIFOs (iso: dst ISOLATED then)   *)
(*   fails set of <<src, dst>>: XML-RPCs of the step that failed (transport)                                   *)
(*   nfail sequence of <<n, j>>: XML-RPC failure notifications about j queued at n during the step            *)
(*   for the delivery of a notification: n = instance, d = the instance the notification is about,            *)
(*   k = "NOTIF_" \o kind                                                                                     *)
(*   err   TRUE iff an internal error was observed (traceback in a critical log / non-RPCError exception)      *)
(*   iso, snapchg  delivery from an origin the receiver holds ISOLATED / its full status snapshot changed      *)
(*   nonadm, procchg  process event from an origin not CHECKED / RUNNING at the receiver / process views changed *)
(* A ghost record g is a function of the history only (GhostInit, GhostStep).                                  *)
EXTENDS Naturals, Sequences, FiniteSets

CONSTANTS N, Core, Sync, AutoFence, FailStrat, T, Mismatch

Inst == 1..N

\* C02: the DOCUMENTED graph (literal; not read from the code). docs/special.rst also documents that any
\* violation of the Master rules brings Supvisors back to ELECTION, hence CONCILIATION -> ELECTION.
G(s) == CASE s = "OFF" -> {"SYNCHRONIZATION"}
          [] s = "SYNCHRONIZATION" -> {"OFF", "ELECTION"}
          [] s = "ELECTION" -> {"OFF", "SYNCHRONIZATION", "DISTRIBUTION", "SHUTTING_DOWN"}
          [] s = "DISTRIBUTION" -> {"OFF", "ELECTION", "OPERATION", "RESTARTING", "SHUTTING_DOWN"}
          [] s = "OPERATION" -> {"OFF", "SYNCHRONIZATION", "ELECTION", "CONCILIATION", "RESTARTING",
                                 "SHUTTING_DOWN"}
          [] s = "CONCILIATION" -> {"OFF", "SYNCHRONIZATION", "ELECTION", "OPERATION", "RESTARTING",
                                    "SHUTTING_DOWN"}
          [] s = "RESTARTING" -> {"FINAL"}
          [] s = "SHUTTING_DOWN" -> {"FINAL"}
          [] s = "FINAL" -> {}
          [] OTHER -> {}
MasterDriven == {"DISTRIBUTION", "OPERATION", "CONCILIATION", "RESTARTING", "SHUTTING_DOWN"}

\* C07: the documented instance state graph
IG(s) == CASE s = "STOPPED" -> {"CHECKING"}
           [] s = "CHECKING" -> {"STOPPED", "CHECKED", "FAILED", "ISOLATED"}
           [] s = "CHECKED" -> {"RUNNING", "FAILED"}
           [] s = "RUNNING" -> {"FAILED"}
           [] s = "FAILED" -> {"STOPPED", "ISOLATED"}
           [] OTHER -> {}
ActiveS == {"CHECKING", "CHECKED", "RUNNING", "FAILED"}
Working == {"ELECTION", "DISTRIBUTION", "OPERATION", "CONCILIATION"}

Min(S) == CHOOSE x \in S : \A y \in S : x <= y

-----------------------------------------------------------------------------
(* Ghost state *)
\* fsmp / mp: last published Supvisors state / Master of each instance (in its current incarnation)
\* entered[m]: master-driven states m ever published while being its own Master; a slave only ever sees its
\*             Master's past, so "after its Master has" means "the Master entered it before"
\* ist[n][j]: last published state of j at n
\* recvAt[n][j]: number of local ticks n had received when the last TICK of j was delivered to n (0: never)
\* linc[n][j]: incarnation of j that sent the last TICK delivered to n
\* susp[n][j]: a justification to declare j FAILED at n exists (an XML-RPC n->j failed, or j restarted)
\* stl[n][j]: the last TICK of j handled by n carried a LOWER counter than the one before (a restart of j that n did
\*            not notice): n resets its reception date, so j is overdue at the next local tick (stealth restart)
\* pendF[n][j]: INSTANCE_FAILURE notifications about j queued at n and not handled yet
\* usermaster[n]: a Master chosen by the user through end_sync(master) on n
GhostInit == [fsmp |-> [n \in Inst |-> "OFF"], mp |-> [n \in Inst |-> 0],
              entered |-> [n \in Inst |-> {}],
              ist |-> [n \in Inst |-> [j \in Inst |-> "STOPPED"]],
              recvAt |-> [n \in Inst |-> [j \in Inst |-> 0]],
              linc |-> [n \in Inst |-> [j \in Inst |-> 0]],
              susp |-> [n \in Inst |-> [j \in Inst |-> FALSE]],
              stl |-> [n \in Inst |-> [j \in Inst |-> FALSE]],
              pendF |-> [n \in Inst |-> [j \in Inst |-> 0]],
              usermaster |-> [n \in Inst |-> 0]]

\* (entered is kept: a slave may still act on what the previous incarnation of its Master published)
ResetNode(g, n) == [g EXCEPT !.fsmp[n] = "OFF", !.mp[n] = 0,
                             !.ist[n] = [j \in Inst |-> "STOPPED"],
                             !.recvAt[n] = [j \in Inst |-> 0], !.linc[n] = [j \in Inst |-> 0],
                             !.susp[n] = [j \in Inst |-> FALSE], !.stl[n] = [j \in Inst |-> FALSE], !.pendF[n] = [j \in Inst |-> 0],
                             !.usermaster[n] = 0]

\* one Supvisors status publication
GhostPub(g, p) ==
  LET e1 == IF p.fsm \in MasterDriven /\ p.master = p.n THEN g.entered[p.n] \cup {p.fsm} ELSE g.entered[p.n]
  IN [g EXCEPT !.fsmp[p.n] = p.fsm, !.mp[p.n] = p.master, !.entered[p.n] = e1]

RECURSIVE GhostPubs(_, _)
GhostPubs(g, ps) == IF ps = <<>> THEN g ELSE GhostPubs(GhostPub(g, Head(ps)), Tail(ps))

RECURSIVE GhostIPubs(_, _)
GhostIPubs(g, ps) ==
  IF ps = <<>> THEN g
  ELSE LET p == Head(ps)
           g1 == [g EXCEPT !.ist[p[1]][p[2]] = p[3],
                           \* (a justification ends when the state CHANGES to one of these: a status published again
                           \*  with the same state - e.g. CHECKING during the handshake - says nothing)
                           !.susp[p[1]][p[2]] = IF p[3] \in {"STOPPED", "ISOLATED", "CHECKING"} /\ p[3] # g.ist[p[1]][p[2]]
                                                THEN FALSE ELSE @,
                           !.stl[p[1]][p[2]] = IF p[3] \in {"STOPPED", "ISOLATED"} THEN FALSE ELSE @]
       IN GhostIPubs(g1, Tail(ps))

DeliveredTick(r) == r.a = "Proxy" /\ r.k = "TICK" /\ r.d # r.n /\ r.d # 0 /\ r.post[r.d].alive
                    /\ <<r.n, r.d>> \notin r.fails

GhostStep(g, r) ==
  LET g0 == IF r.a = "Boot" THEN ResetNode(g, r.n) ELSE g
      g1 == GhostIPubs(GhostPubs(g0, r.pubs), r.ipubs)
      \* TICK of r.n delivered to r.d
      g2 == IF DeliveredTick(r)
            THEN [g1 EXCEPT !.recvAt[r.d][r.n] = r.post[r.d].tick,
                            !.susp[r.d][r.n] = @ \/ (g1.linc[r.d][r.n] # 0 /\ g1.linc[r.d][r.n] # r.pre[r.n].inc),
                            !.linc[r.d][r.n] = r.pre[r.n].inc,
                            \* (the counters are those the receiver itself reports: times.remote_sequence_counter)
                            !.stl[r.d][r.n] = /\ r.pre[r.d].alive
                                              /\ r.post[r.d].rem[r.n] < r.pre[r.d].rem[r.n]
                                              /\ r.post[r.d].inst[r.n] \in ActiveS]
            ELSE g1
      g3 == [g2 EXCEPT !.susp = [n \in Inst |-> [j \in Inst |-> g2.susp[n][j] \/ <<n, j>> \in r.fails]]]
      g4 == IF r.a = "Rpc" /\ r.k = "end_sync" /\ r.d # 0 THEN [g3 EXCEPT !.usermaster[r.n] = r.d] ELSE g3
      \* failure notifications: consumed by this step, then queued by this step
      g5 == IF r.a = "Proxy" /\ r.k = "NOTIF_FAILURE" /\ g4.pendF[r.n][r.d] > 0
            THEN [g4 EXCEPT !.pendF[r.n][r.d] = @ - 1] ELSE g4
      g6 == [g5 EXCEPT !.pendF = [n \in Inst |-> [j \in Inst |->
                                   g5.pendF[n][j] + Cardinality({k \in DOMAIN r.nfail : r.nfail[k] = <<n, j>>})]]]
      \* a crashed instance loses its FIFOs
      g7 == IF r.a = "Crash" THEN [g6 EXCEPT !.pendF[r.n] = [j \in Inst |-> 0]] ELSE g6
  IN g7

-----------------------------------------------------------------------------
(* C02 *)
RECURSIVE PubsOK(_, _, _, _)
\* lastf / lastm: running "last published" maps; ent: running entered map; returns the set of failing labels
PubsOK(lastf, lastm, ent, ps) ==
  IF ps = <<>> THEN {}
  ELSE LET p == Head(ps)
           changed == p.fsm # lastf[p.n]
           onGraph == ~changed \/ p.fsm \in G(lastf[p.n])
           needs == ~(changed /\ p.fsm \in MasterDriven) \/
                    (p.master # 0 /\ p.mstate = "RUNNING")
           \* F10: with supvisors_failure_strategy = SHUTDOWN every instance decides SHUTTING_DOWN on its own
           f10 == FailStrat = "SHUTDOWN" /\ p.fsm = "SHUTTING_DOWN"
           after == ~(changed /\ p.fsm \in MasterDriven /\ p.master # p.n /\ p.master # 0) \/
                    p.fsm \in ent[p.master]
           e1 == IF p.fsm \in MasterDriven /\ p.master = p.n THEN ent[p.n] \cup {p.fsm} ELSE ent[p.n]
           bad == (IF onGraph THEN {} ELSE {"C02.OnGraph"})
                  \cup (IF needs \/ f10 THEN {} ELSE {"C02.NeedsMaster"})
                  \cup (IF after \/ f10 THEN {} ELSE {"C02.SlaveAfterMaster"})
           known == IF f10 /\ ~(needs /\ after) THEN {"KNOWN.F10"} ELSE {}
       IN bad \cup known \cup PubsOK([lastf EXCEPT ![p.n] = p.fsm], [lastm EXCEPT ![p.n] = p.master],
                                     [ent EXCEPT ![p.n] = e1], Tail(ps))

-----------------------------------------------------------------------------
(* C01: election rule at every change of Master to a non-empty value *)
Expected(p, prev) ==
  LET running == {j \in Inst : p.ist[j] = "RUNNING"}
      declared == ({p.decl[j] : j \in running \ {p.n}} \cup (IF p.n \in running THEN {prev} ELSE {})) \ {0}
      c1 == IF declared = {} THEN running ELSE declared
      c2 == IF Core \cap c1 # {} THEN Core \cap c1 ELSE c1
  IN [cands |-> c1, pick |-> IF c2 = {} THEN 0 ELSE Min(c2)]

RECURSIVE ElectionOK(_, _, _)
ElectionOK(lastm, um, ps) ==
  IF ps = <<>> THEN {}
  ELSE LET p == Head(ps)
           chg == p.master # lastm[p.n] /\ p.master # 0
           e == Expected(p, lastm[p.n])
           ok == \/ ~chg
                 \/ p.master = e.pick
                 \/ um[p.n] = p.master                      \* chosen by the user (end_sync with an argument)
                 \/ "USER" \in Sync /\ p.master \in e.cands  \* USER: any Master still recognised is accepted
       IN (IF ok THEN {} ELSE {"C01.ElectionRule"})
          \cup ElectionOK([lastm EXCEPT ![p.n] = p.master], um, Tail(ps))

\* no automatic start/stop request unless Master: push entries <<src, dst, iso, type, what>>
\* (type "R" request; what 1 / 2 = START_PROCESS / STOP_PROCESS); r.user: the step is a user XML-RPC
MasterOnlyAuto(r) == \A k \in DOMAIN r.push :
                        LET x == r.push[k]
                        IN (x[4] = "R" /\ x[5] \in {1, 2} /\ ~r.user) => r.post[x[1]].master = x[1]

-----------------------------------------------------------------------------
(* C07 *)
RECURSIVE IPubsFold(_, _, _, _)
IPubsFold(cur, g, r, k) ==
  IF k > Len(r.ipubs) THEN {}
  ELSE LET p == r.ipubs[k]
           n == p[1]   j == p[2]   s == p[3]
           old == cur[n][j]
           chg == s # old
           graph == ~chg \/ s \in IG(old)
           local == ~(s = "ISOLATED" /\ j = n)
           \* Accuracy: RUNNING / CHECKED -> FAILED needs a justification
           timeout == r.a = "Tick" /\ r.n = n /\ (r.pre[n].tick + 1) - g.recvAt[n][j] > T
           \* an XML-RPC failure notification is handled (it only exists because an XML-RPC to j failed)
           notif == r.a = "Proxy" /\ r.k = "NOTIF_FAILURE" /\ r.n = n /\ r.d = j /\ g.pendF[n][j] > 0
           acc == ~(chg /\ s = "FAILED" /\ old \in {"RUNNING", "CHECKED"}) \/ timeout \/ g.susp[n][j]
                  \/ <<n, j>> \in r.fails \/ notif
           \* without auto_fence a FAILED peer becomes STOPPED
           fence == ~(chg /\ old = "FAILED" /\ s = "ISOLATED") \/ AutoFence
           \* C13: a peer whose strategies differ from the local ones is never admitted
           recip == ~(chg /\ s \in {"CHECKED", "RUNNING"}) \/ ((n \in Mismatch) = (j \in Mismatch))
       IN (IF graph THEN {} ELSE {"C07.InstanceGraph"})
          \cup (IF local THEN {} ELSE {"C07.LocalIsolated"})
          \cup (IF acc THEN {} ELSE {"C07.Accuracy"})
          \cup (IF fence THEN {} ELSE {"C07.Fence"})
          \cup (IF recip THEN {} ELSE {"C13.Reciprocal"})
          \cup IPubsFold([cur EXCEPT ![n][j] = s], g, r, k + 1)

\* Completeness: after a local tick of n nobody is left FAILED, and nobody active is overdue
\* (also demanded when the tick ended on an internal error: the failure detector must not stop working)
Completeness(g1, r) ==
  (r.a = "Tick" /\ r.post[r.n].alive) =>
     \A j \in Inst : /\ r.post[r.n].inst[j] # "FAILED"
                     /\ (j # r.n /\ r.post[r.n].inst[j] \in ActiveS /\ g1.recvAt[r.n][j] > 0)
                        => r.post[r.n].tick - g1.recvAt[r.n][j] <= T
                     \* stealth restart: the reception date of the peer whose TICK counter went backwards is reset to the
                     \* origin of the local counter (recvAt would be 1: the counter reported as `tick` is one ahead of the
                     \* counter carried by the local TICK)
                     /\ (j # r.n /\ r.post[r.n].inst[j] \in ActiveS /\ g1.stl[r.n][j]) => r.post[r.n].tick - 1 <= T

\* the published instance states are what the status XML-RPC reports afterwards
ViewConsistent(g1, r) == \A n \in Inst : r.post[n].alive => \A j \in Inst : r.post[n].inst[j] = g1.ist[n][j]

-----------------------------------------------------------------------------
(* C13 *)
Airtight(r) == r.iso => ~r.snapchg
\* process state / removal / disability events from a peer that has not passed the handshake change no process view
OnlyAdmitted(r) == r.nonadm => ~r.procchg
NoTraffic(r) == \A k \in DOMAIN r.push : ~r.push[k][3]

-----------------------------------------------------------------------------
(* All step properties: the set of failing labels (empty = the step is fine) *)
StepFailures(g, r) ==
  LET g1 == GhostStep(g, r)
      g0 == IF r.a = "Boot" THEN ResetNode(g, r.n) ELSE g
  IN PubsOK(g0.fsmp, g0.mp, g0.entered, r.pubs)
     \cup ElectionOK(g0.mp, g1.usermaster, r.pubs)
     \cup (IF MasterOnlyAuto(r) THEN {} ELSE {"C01.MasterOnlyAuto"})
     \cup IPubsFold(g0.ist, g0, r, 1)
     \cup (IF Completeness(g1, r) THEN {} ELSE {"C07.Completeness"})
     \cup (IF ViewConsistent(g1, r) THEN {} ELSE {"C07.ViewConsistent"})
     \cup (IF Airtight(r) THEN {} ELSE {"C13.Airtight"})
     \cup (IF NoTraffic(r) THEN {} ELSE {"C13.NoTraffic"})
     \cup (IF OnlyAdmitted(r) THEN {} ELSE {"C13.OnlyAdmitted"})
     \* an instance that never comes back from a step is parked for ever
     \cup (IF r.hang THEN {"C08.Progress"} ELSE {})
     \cup (IF r.err THEN {"C16.NoInternalError"} ELSE {})

-----------------------------------------------------------------------------
(* C01 / C08: terminal classification of a state reached after the disturbances stopped and K fair rounds ran  *)
\* st: [Inst -> obs]; cutfree: no partition left
AliveSet(st) == {i \in Inst : st[i].alive}
\* instances involved in no isolation with another live instance
Clean(st) == {i \in AliveSet(st) : \A j \in AliveSet(st) : st[i].inst[j] # "ISOLATED" /\ st[j].inst[i] # "ISOLATED"}

\* with auto_fence a healed partition leaves instances that isolated each other: nothing is demanded then
NoIsolation(st) == \A i, j \in AliveSet(st) : st[i].inst[j] # "ISOLATED"

Converged(st) ==
  LET C == Clean(st)
  IN ~NoIsolation(st) \/ C = {} \/ \E m \in AliveSet(st) :
                  /\ st[m].master = m
                  /\ \A i \in C : st[i].master = m /\ st[i].inst[m] = "RUNNING"

Settled(st) ==
  LET C == Clean(st)
  IN ~NoIsolation(st) \/ C = {} \/ \E m \in AliveSet(st) :
                  /\ st[m].master = m /\ st[m].fsm \in {"OPERATION", "CONCILIATION"}
                  /\ \A i \in C : st[i].master = m /\ st[i].inst[m] = "RUNNING" /\ st[i].fsm = st[m].fsm

\* Known terminal classes (known_findings.json)
\* F2: views agree on a Master m that is in OPERATION / CONCILIATION while others are parked in ELECTION
Known_F2(st) ==
  LET C == Clean(st)
  IN \E m \in AliveSet(st) :
        /\ st[m].master = m /\ st[m].fsm \in {"OPERATION", "CONCILIATION"}
        /\ \A i \in C : st[i].master = m /\ st[i].inst[m] = "RUNNING"
        /\ \A i \in C : st[i].fsm \in {st[m].fsm, "ELECTION"}
        /\ \E i \in C : st[i].fsm = "ELECTION"
\* F1: no Master, somebody is in CONCILIATION (wants ELECTION, the table refuses)
Known_F1(st) == \E i \in AliveSet(st) : st[i].fsm = "CONCILIATION" /\ st[i].master \in {0} \cup (Inst \ AliveSet(st))

\* premises of C08
\* (USER alone needs a user to end the synchronization: nothing is demanded of the automatic behaviour)
SyncSatisfiable(st) ==
  \/ "TIMEOUT" \in Sync
  \/ "STRICT" \in Sync /\ AliveSet(st) = Inst
  \/ "LIST" \in Sync /\ AliveSet(st) = Inst
  \/ "CORE" \in Sync /\ Core \subseteq AliveSet(st)

TerminalFailures(st, ended) ==
  \* ended: a restart / shutdown was requested (the cluster is meant to end, not to settle)
  IF ended \/ AliveSet(st) = {} THEN {}
  ELSE LET conv == Converged(st)
           setl == Settled(st)
           prem == SyncSatisfiable(st) /\ FailStrat # "SHUTDOWN"
           k2 == Known_F2(st)
           k1 == Known_F1(st)
       IN (IF ~prem \/ conv \/ k1 THEN {} ELSE {"C01.Convergence"})
          \cup (IF ~prem \/ setl \/ k1 \/ k2 THEN {} ELSE {"C08.Progress"})
          \cup (IF prem /\ ~setl /\ k2 THEN {"KNOWN.F2"} ELSE {})
          \cup (IF prem /\ ~setl /\ k1 THEN {"KNOWN.F1"} ELSE {})
=============================================================================
