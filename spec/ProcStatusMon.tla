--------------------------- MODULE ProcStatusMon ---------------------------
(* C11 monitor: the reference formulas of ProcStatusRef evaluated by TLC on observations recorded from the     *)
(* real code. Each record is [rpre (ghost before, a function of the operation history), op, obs (what the real *)
(* XML-RPC interface reported after op)]. No behaviour spec: the records are checked as one assumption; each   *)
(* offending record is printed with the names of the failing conjuncts.                                        *)
EXTENDS ProcStatusRef, TLC, Json, IOUtils, Functions

Recs == JsonDeserialize(IOEnv.RECS_FILE)

ToSet(s) == {s[i] : i \in DOMAIN s}
ToR(x) == [last |-> x.last, order |-> x.order, running |-> ToSet(x.running), forced |-> ToSet(x.forced),
           stale |-> ToSet(x.stale), taint |-> ToSet(x.taint)]
ToObs(x) == [exists |-> x.exists, state |-> x.state, displayed |-> x.displayed, expected |-> x.expected,
             ids |-> ToSet(x.ids), conflict |-> x.conflict, inner |-> x.inner]

Failed(rec) ==
  LET rp == RefStep(ToR(rec.rpre), rec.op)
      obs == ToObs(rec.obs)
  IN IF rp.taint # {} THEN {}
     ELSE IF rec.obs.err # "" THEN {"NoErr"}
     ELSE IF ~RExists(rp) THEN (IF obs.exists THEN {"PExists"} ELSE {})
     ELSE IF ~obs.exists THEN {"PExists"}
     ELSE (IF RunningOK(rp, obs) THEN {} ELSE {"PRunning"})
          \cup (IF ConflictOK(rp, obs) THEN {} ELSE {"PConflict"})
          \cup (IF ShownOK(rp, obs) THEN {} ELSE {"PShown"})
          \cup (IF ForcedOK(rp, obs) THEN {} ELSE {"PForced"})
          \cup (IF InnerOK(rp, obs) THEN {} ELSE {"PInner"})

\* would the record fail if the known findings were not exempted? (reported as KNOWN-FINDING, per finding id)
FailedUntainted(rec) ==
  LET rp == [RefStep(ToR(rec.rpre), rec.op) EXCEPT !.taint = {}]
      obs == ToObs(rec.obs)
  IN \/ rec.obs.err # ""
     \/ RExists(rp) # obs.exists
     \/ RExists(rp) /\ ~ObsOK(rp, obs)

Check(i) == LET f == Failed(Recs[i])
                t == RefStep(ToR(Recs[i].rpre), Recs[i].op).taint
            IN /\ IF f = {} THEN TRUE ELSE PrintT("V " \o ToJson([i |-> i, failed |-> f]))
               /\ IF t # {} /\ FailedUntainted(Recs[i]) THEN PrintT("K " \o ToJson([i |-> i, known |-> t])) ELSE TRUE

ASSUME PrintT("N " \o ToString(Len(Recs)))
ASSUME \A i \in 1..Len(Recs) : Check(i)
=============================================================================
