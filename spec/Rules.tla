------------------------------- MODULE Rules -------------------------------
(* C18 - definition-level specification of rule lookup in a rules file, transcribed from the documentation          *)
(* (docs/rules.rst) and the property statement - NOT from the code. Used as an evaluator: checks/c18.py generates    *)
(* documents, TLC computes for each (document, application, program) the SET of admissible resolved rules (a set    *)
(* because the documentation leaves ties between equally long patterns open), the real Parser must return one.     *)
(* A document: apps (sequence of [pat, key, a (attributes), progs (sequence of [pat, key, ref, a])]), models         *)
(* (sequence of [key, ref, a]), aliases (sequence of [name, ids]); names / patterns / references are sequences of    *)
(* characters; patterns are fixed-length: characters, '.', optional ^ and $ (quantifiers are out of scope). An attribute is        *)
(* [s |-> set?, k |-> "int" | "junk" | "tok", v |-> integer, t |-> token].                                           *)
EXTENDS Naturals, Integers, Sequences, FiniteSets, TLC, Json, IOUtils

Docs == JsonDeserialize(IOEnv.DOCS_FILE)

StartingFailure == {"ABORT", "CONTINUE", "STOP"}
RunningFailure == {"CONTINUE", "RESTART_PROCESS", "STOP_APPLICATION", "RESTART_APPLICATION", "SHUTDOWN", "RESTART"}
Starting == {"CONFIG", "LESS_LOADED", "MOST_LOADED", "LOCAL", "LESS_LOADED_NODE", "MOST_LOADED_NODE"}
Distribution == {"ALL_INSTANCES", "SINGLE_INSTANCE", "SINGLE_NODE"}
TrueTok == {"y", "yes", "t", "true", "on", "1"}
FalseTok == {"n", "no", "f", "false", "off", "0"}

\* a pattern is [s |-> anchored at the start (^), e |-> anchored at the end ($), k |-> sequence of characters, "." = any
\* character]: it matches a substring of exactly Len(k) characters, which is also the length of its capture
MatchAt(pat, name, i) == /\ \A j \in 1..Len(pat.k) : pat.k[j] = "." \/ pat.k[j] = name[i + j - 1]
                         /\ (pat.s => i = 1) /\ (pat.e => i + Len(pat.k) - 1 = Len(name))
IsSub(pat, name) == /\ Len(pat.k) > 0 /\ Len(pat.k) <= Len(name)
                    /\ \E i \in 1..(Len(name) - Len(pat.k) + 1) : MatchAt(pat, name, i)
PLen(key) == Len(key.k)

\* exact name: the first element of that name; else among the patterns that match, the longest (ties: any of them;
\* two elements with the same pattern text: the last one replaces the first)
Lookup(elts, name) ==
  LET exact == {i \in DOMAIN elts : ~elts[i].pat /\ elts[i].key = name}
      eff == {i \in DOMAIN elts : elts[i].pat /\ ~\E j \in DOMAIN elts : j > i /\ elts[j].pat /\ elts[j].key = elts[i].key}
      m == {i \in eff : IsSub(elts[i].key, name)}
  IN IF exact # {} THEN {<<CHOOSE i \in exact : \A j \in exact : i <= j, FALSE>>}
     ELSE {<<i, TRUE>> : i \in {x \in m : \A y \in m : PLen(elts[x].key) >= PLen(elts[y].key)}}

\* --- identifiers -------------------------------------------------------------------------------------------------
RECURSIVE Expand(_, _, _)
Expand(ids, aliases, k) ==       \* aliases expand in declaration order; an alias may use an alias declared after it
  IF k > Len(aliases) THEN ids
  ELSE LET al == aliases[k]
           pos == {i \in DOMAIN ids : ids[i] = al.name}
       IN IF pos = {} THEN Expand(ids, aliases, k + 1)
          ELSE LET p == CHOOSE i \in pos : \A j \in pos : i <= j
               IN Expand(SubSeq(ids, 1, p - 1) \o al.ids \o SubSeq(ids, p + 1, Len(ids)), aliases, k + 1)
Dedup(s) == LET F[i \in 0..Len(s)] == IF i = 0 THEN <<>>
                                      ELSE IF s[i] = "" \/ \E j \in 1..(i - 1) : s[j] = s[i] THEN F[i - 1]
                                           ELSE Append(F[i - 1], s[i])
            IN F[Len(s)]
Without(s, x) == SelectSeq(s, LAMBDA e : e # x)
InSeq(x, s) == \E i \in DOMAIN s : s[i] = x

\* rules record: ids, at, hash, start, stop, req, wexit, load, sfs, rfs
Default == [ids |-> <<"*">>, at |-> <<>>, hash |-> <<>>, start |-> 0, stop |-> -1, req |-> FALSE, wexit |-> FALSE,
            load |-> 0, sfs |-> "ABORT", rfs |-> "CONTINUE"]

LoadIds(r, a, aliases) ==
  IF ~a.s \/ a.ids = <<>> THEN r
  ELSE LET l0 == Dedup(Expand(a.ids, aliases, 1))
           hasAt == InSeq("@", l0)     hasHash == InSeq("#", l0)
           l1 == Without(Without(l0, "@"), "#")
           l2 == IF ((hasAt \/ hasHash) /\ l1 = <<>>) \/ InSeq("*", l1) THEN <<"*">> ELSE l1
           r1 == IF hasAt THEN [r EXCEPT !.at = l2, !.ids = <<>>] ELSE r
           r2 == IF hasHash THEN [r1 EXCEPT !.hash = l2, !.ids = <<>>] ELSE r1
       IN IF ~hasAt /\ ~hasHash THEN [r2 EXCEPT !.ids = l2] ELSE r2

\* every value outside its domain leaves what was there
Seq0(cur, a) == IF a.s /\ a.k = "int" /\ a.v >= 0 THEN a.v ELSE cur
Load100(cur, a) == IF a.s /\ a.k = "int" /\ a.v >= 0 /\ a.v <= 100 THEN a.v ELSE cur
Bool(cur, a) == IF a.s /\ a.k = "tok" /\ a.t \in TrueTok THEN TRUE
                ELSE IF a.s /\ a.k = "tok" /\ a.t \in FalseTok THEN FALSE
                ELSE IF a.s /\ a.k = "int" /\ a.v \in {0, 1} THEN a.v = 1 ELSE cur
Enum(cur, a, dom) == IF a.s /\ a.k = "tok" /\ a.t \in dom THEN a.t ELSE cur

Apply(r, a, aliases) ==
  LET r1 == LoadIds(r, a.identifiers, aliases)
  IN [r1 EXCEPT !.start = Seq0(@, a.start_sequence), !.stop = Seq0(@, a.stop_sequence),
                !.req = Bool(@, a.required), !.wexit = Bool(@, a.wait_exit),
                !.load = Load100(@, a.expected_loading),
                !.sfs = Enum(@, a.starting_failure_strategy, StartingFailure),
                !.rfs = Enum(@, a.running_failure_strategy, RunningFailure)]

\* a referenced model is loaded first, then the element's own values supersede it; references are followed to a
\* depth of 3 at most (element -> model -> model -> ... : the element itself counts for one)
ModelOf(doc, ref) == LET m == {i \in DOMAIN doc.models : doc.models[i].key = ref}
                     IN IF ref = <<>> \/ m = {} THEN 0
                        ELSE CHOOSE i \in m : \A j \in m : i >= j       \* (same name twice: the last one)
RECURSIVE LoadElt(_, _, _, _)
LoadElt(doc, elt, r, depth) ==
  IF depth = 0 THEN r
  ELSE LET mi == ModelOf(doc, elt.ref)
           r0 == IF mi = 0 THEN r ELSE LoadElt(doc, doc.models[mi], r, depth - 1)
       IN Apply(r0, elt.a, doc.aliases)

\* dependency checks
Check(r, isPattern) ==
  LET r1 == IF r.at # <<>> /\ ~isPattern THEN [r EXCEPT !.ids = <<"*">>, !.at = <<>>] ELSE r
      r2 == IF r1.hash # <<>> /\ ~isPattern THEN [r1 EXCEPT !.ids = <<"*">>, !.hash = <<>>] ELSE r1
      r3 == IF r2.at # <<>> /\ r2.hash # <<>> THEN [r2 EXCEPT !.hash = <<>>] ELSE r2
      r4 == IF r3.req /\ r3.start = 0 THEN [r3 EXCEPT !.req = FALSE] ELSE r3
  IN IF r4.stop < 0 THEN [r4 EXCEPT !.stop = r4.start] ELSE r4

\* the admissible resolved rules of program pn of application an
ProgramRules(doc, an, pn) ==
  LET apps == Lookup(doc.apps, an)
  IN IF apps = {} THEN {Check(Default, FALSE)}
     ELSE UNION {LET progs == Lookup(doc.apps[ae[1]].progs, pn)
                 IN IF progs = {} THEN {Check(Default, FALSE)}
                    ELSE {Check(LoadElt(doc, doc.apps[ae[1]].progs[pe[1]], Default, 3), pe[2]) : pe \in progs}
                 : ae \in apps}

\* application rules: managed iff an element is found
AppDefault == [managed |-> FALSE, dist |-> "ALL_INSTANCES", ids |-> <<"*">>, start |-> 0, stop |-> -1,
               strat |-> "CONFIG", sfs |-> "ABORT", rfs |-> "CONTINUE"]
ApplicationRules(doc, an) ==
  LET apps == Lookup(doc.apps, an)
      fin(r) == IF r.stop < 0 THEN [r EXCEPT !.stop = r.start] ELSE r
  IN IF apps = {} THEN {fin(AppDefault)}
     ELSE {LET a == doc.apps[ae[1]].a
               ids == IF a.identifiers.s /\ a.identifiers.ids # <<>>
                      THEN LET l == Dedup(Expand(a.identifiers.ids, doc.aliases, 1))
                           IN IF InSeq("*", l) THEN <<"*">> ELSE l
                      ELSE <<"*">>
           IN fin([managed |-> TRUE, dist |-> Enum("ALL_INSTANCES", a.distribution, Distribution), ids |-> ids,
                   start |-> Seq0(0, a.start_sequence), stop |-> Seq0(-1, a.stop_sequence),
                   strat |-> Enum("CONFIG", a.starting_strategy, Starting),
                   sfs |-> Enum("ABORT", a.starting_failure_strategy, StartingFailure),
                   rfs |-> Enum("CONTINUE", a.running_failure_strategy, RunningFailure)])
           : ae \in apps}

\* '#' / '@': process number k (0-based, by process index) of a homogeneous group over the applicable instances ref
\* '@' one process per instance without roll-over, '#' with roll-over
Spread(sign, ref, k) == IF ref = <<>> THEN <<>>
                        ELSE IF sign = "@" THEN (IF k < Len(ref) THEN <<ref[k + 1]>> ELSE <<>>)
                        ELSE <<ref[(k % Len(ref)) + 1]>>

Out(i) == LET d == Docs[i]
          IN PrintT("R " \o ToJson([i |-> i,
                                    prog |-> ProgramRules(d, d.qapp, d.qproc),
                                    app |-> ApplicationRules(d, d.qapp),
                                    spread |-> [k \in 0..3 |-> [at |-> Spread("@", d.ref, k), hash |-> Spread("#", d.ref, k)]]]))
ASSUME \A i \in DOMAIN Docs : Out(i)
ASSUME PrintT("N " \o ToString(Len(Docs)))
=============================================================================
