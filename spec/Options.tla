------------------------------ MODULE Options ------------------------------
(* C18 - definition-level specification of the conversion of the [supvisors] options, transcribed from             *)
(* docs/configuration.rst and the property statement. Evaluator: checks/c18.py generates option dictionaries (values *)
(* pre-tokenised: [s |-> present?, k |-> "int" | "junk" | "tok", v |-> integer, t |-> upper-cased token]; lists as     *)
(* sequences of such), TLC prints the effective options (or "REFUSED").                                             *)
EXTENDS Naturals, Integers, Sequences, FiniteSets, TLC, Json, IOUtils

Opts == JsonDeserialize(IOEnv.OPTS_FILE)

SyncOpts == {"STRICT", "LIST", "TIMEOUT", "CORE", "USER"}
SyncDefault == <<"STRICT", "TIMEOUT", "CORE">>
Concil == {"SENICIDE", "INFANTICIDE", "USER", "STOP", "RESTART", "RUNNING_FAILURE"}
Starting == {"CONFIG", "LESS_LOADED", "MOST_LOADED", "LOCAL", "LESS_LOADED_NODE", "MOST_LOADED_NODE"}
Failure == {"CONTINUE", "RESYNC", "SHUTDOWN"}
TrueTok == {"TRUE", "YES", "ON", "1"}
FalseTok == {"FALSE", "NO", "OFF", "0"}

IntIn(a, lo, hi, def) == IF a.s /\ a.k = "int" /\ a.v >= lo /\ a.v <= hi THEN a.v ELSE def
EnumIn(a, dom, def) == IF a.s /\ a.k = "tok" /\ a.t \in dom THEN a.t ELSE def
BoolOf(a, def) == IF a.s /\ a.k = "tok" /\ a.t \in TrueTok THEN TRUE
                  ELSE IF a.s /\ a.k = "tok" /\ a.t \in FalseTok THEN FALSE
                  ELSE IF a.s /\ a.k = "int" /\ a.v \in {0, 1} THEN a.v = 1 ELSE def
Dedup(s) == LET F[i \in 0..Len(s)] == IF i = 0 THEN <<>>
                                      ELSE IF \E j \in 1..(i - 1) : s[j] = s[i] THEN F[i - 1] ELSE Append(F[i - 1], s[i])
            IN F[Len(s)]
Without(s, x) == SelectSeq(s, LAMBDA e : e # x)
InSeq(x, s) == \E i \in DOMAIN s : s[i] = x
SortedInts(S) == LET F[T \in SUBSET S] == IF T = {} THEN <<>>
                                          ELSE LET m == CHOOSE x \in T : \A y \in T : x <= y IN <<m>> \o F[T \ {m}]
                 IN F[S]

Effective(o) ==
  LET sync0 == IF ~o.synchro_options.s THEN SyncDefault
               ELSE IF \A i \in DOMAIN o.synchro_options.l : o.synchro_options.l[i].k = "tok"
                                                             /\ o.synchro_options.l[i].t \in SyncOpts
                    THEN Dedup([i \in DOMAIN o.synchro_options.l |-> o.synchro_options.l[i].t])
                    ELSE SyncDefault
      sync1 == IF o.has_core THEN sync0 ELSE Without(sync0, "CORE")
      sync2 == IF o.has_list THEN sync1 ELSE Without(sync1, "STRICT")
      fail0 == EnumIn(o.supvisors_failure_strategy, Failure, "CONTINUE")
      per == o.stats_periods
      perOK == per.s /\ Len(per.l) >= 1 /\ Len(per.l) <= 3
               /\ \A i \in DOMAIN per.l : per.l[i].k = "int" /\ per.l[i].v >= 1 /\ per.l[i].v <= 3600
  IN IF sync2 = <<>> THEN [refused |-> TRUE]
     ELSE [refused |-> FALSE,
           synchro_options |-> sync2,
           supvisors_failure_strategy |-> IF InSeq("TIMEOUT", sync2) THEN "CONTINUE" ELSE fail0,
           auto_fence |-> BoolOf(o.auto_fence, FALSE),
           synchro_timeout |-> IntIn(o.synchro_timeout, 15, 1200, 15),
           inactivity_ticks |-> IntIn(o.inactivity_ticks, 2, 720, 2),
           conciliation_strategy |-> EnumIn(o.conciliation_strategy, Concil, "USER"),
           starting_strategy |-> EnumIn(o.starting_strategy, Starting, "CONFIG"),
           stats_histo |-> IntIn(o.stats_histo, 10, 1500, 200),
           stats_collecting_period |-> IntIn(o.stats_collecting_period, 1, 3600, 5),
           multicast_ttl |-> IntIn(o.multicast_ttl, 0, 255, 1),
           event_port |-> IntIn(o.event_port, 1, 65535, 0),
           stats_periods |-> IF perOK THEN SortedInts({per.l[i].v : i \in DOMAIN per.l}) ELSE <<10>>,
           stats_periods_n |-> IF perOK THEN Len(per.l) ELSE 1]

ASSUME \A i \in DOMAIN Opts : PrintT("O " \o ToJson([i |-> i, e |-> Effective(Opts[i])]))
ASSUME PrintT("N " \o ToString(Len(Opts)))
=============================================================================
