----------------------------- MODULE Sequencer -----------------------------
(* C03 / C10 - design model of one application start plan (supvisors/commander.py: ApplicationStartJobs with its    *)
(* planned / current jobs, pickup of the lowest sequence, on_event, check / timed_out, process_failure) against an  *)
(* environment that may never answer, lose any event, fail or lose the target. Processes 1..NP; Seq, Required and  *)
(* Strategy are chosen nondeterministically at the start so that TLC covers every rules combination.               *)
EXTENDS Naturals, FiniteSets, TLC

CONSTANTS NP,       \* number of processes
          MaxAge    \* tick margin after which an unanswered request is abandoned

Procs == 1..NP
VARIABLES seq,       \* [Procs -> 0..2]        start_sequence (0: never started automatically)
          required,  \* [Procs -> BOOLEAN]
          strategy,  \* "ABORT" | "STOP" | "CONTINUE"
          phase,     \* [Procs -> "idle" | "planned" | "inflight" | "done" | "givenup"]
          acked,     \* [Procs -> BOOLEAN]     STARTING seen for the in-flight request
          age,       \* [Procs -> Nat]         target ticks since the request / the last acknowledgement
          aborted,   \* the plan was cut (required process given up under ABORT / STOP)
          stopreq    \* STOP: the application is to be stopped once in-flight starts have ended
vars == <<seq, required, strategy, phase, acked, age, aborted, stopreq>>

Init == /\ seq \in [Procs -> 0..2] /\ required \in [Procs -> BOOLEAN]
        /\ strategy \in {"ABORT", "STOP", "CONTINUE"}
        /\ phase = [p \in Procs |-> IF seq[p] > 0 THEN "planned" ELSE "idle"]
        /\ acked = [p \in Procs |-> FALSE] /\ age = [p \in Procs |-> 0]
        /\ aborted = FALSE /\ stopreq = FALSE

InFlight == {p \in Procs : phase[p] = "inflight"}
Planned == {p \in Procs : phase[p] = "planned"}
LowestPlanned == {p \in Planned : \A q \in Planned : seq[p] <= seq[q]}

\* ApplicationJobs.next: when nothing is in flight the lowest planned group is requested
Evaluate == /\ InFlight = {} /\ Planned # {}
            /\ phase' = [p \in Procs |-> IF p \in LowestPlanned THEN "inflight" ELSE phase[p]]
            /\ acked' = [p \in Procs |-> IF p \in LowestPlanned THEN FALSE ELSE acked[p]]
            /\ age' = [p \in Procs |-> IF p \in LowestPlanned THEN 0 ELSE age[p]]
            /\ UNCHANGED <<seq, required, strategy, aborted, stopreq>>

\* process_failure
Failure(p) == IF required[p] /\ strategy \in {"ABORT", "STOP"}
              THEN /\ phase' = [q \in Procs |-> IF q = p THEN "givenup" ELSE IF phase[q] = "planned" THEN "idle" ELSE phase[q]]
                   /\ aborted' = TRUE /\ stopreq' = (stopreq \/ strategy = "STOP")
              ELSE /\ phase' = [phase EXCEPT ![p] = "givenup"] /\ UNCHANGED <<aborted, stopreq>>

\* events received by the requester (any of them may simply never come)
Ack(p) == /\ phase[p] = "inflight" /\ ~acked[p]
          /\ acked' = [acked EXCEPT ![p] = TRUE] /\ age' = [age EXCEPT ![p] = 0]
          /\ UNCHANGED <<seq, required, strategy, phase, aborted, stopreq>>
Running(p) == /\ phase[p] = "inflight"
              /\ phase' = [phase EXCEPT ![p] = "done"]
              /\ UNCHANGED <<seq, required, strategy, acked, age, aborted, stopreq>>
Failed(p) == /\ phase[p] = "inflight" /\ Failure(p)
             /\ UNCHANGED <<seq, required, strategy, acked, age>>
\* a target tick; check(): a request not acknowledged / not completed within the margin is abandoned
Tick == /\ InFlight # {}
        /\ LET late == {p \in InFlight : age[p] + 1 > MaxAge}
           IN IF late = {} THEN /\ age' = [p \in Procs |-> IF p \in InFlight THEN age[p] + 1 ELSE age[p]]
                                /\ UNCHANGED <<phase, aborted, stopreq>>
              ELSE LET p == CHOOSE x \in late : TRUE
                   IN Failure(p) /\ age' = age
        /\ UNCHANGED <<seq, required, strategy, acked>>

Next == Evaluate \/ Tick \/ \E p \in Procs : Ack(p) \/ Running(p) \/ Failed(p)
Spec == Init /\ [][Next]_vars /\ WF_vars(Tick) /\ WF_vars(Evaluate)

TypeOK == phase \in [Procs -> {"idle", "planned", "inflight", "done", "givenup"}]
\* C03: a process is requested only when every lower positive sequence is done or given up
OrderInv == \A p \in Procs : phase[p] \in {"inflight", "done", "givenup"} =>
               \A q \in Procs : (seq[q] > 0 /\ seq[q] < seq[p]) => phase[q] \in {"done", "givenup"}
ZeroInv == \A p \in Procs : seq[p] = 0 => phase[p] = "idle"
\* ABORT / STOP: nothing is planned any more once a required process was given up
AbortInv == aborted => Planned = {}
\* C10: no request stays unanswered beyond the margin
BoundedInv == \A p \in Procs : age[p] <= MaxAge
Terminates == <>[](InFlight = {} /\ Planned = {})
=============================================================================
