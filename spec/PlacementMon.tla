---------------------------- MODULE PlacementMon ----------------------------
(* C04 / C14 monitor: each record is one placement decision observed on real cores - the situation as the requester *)
(* reports it (instance states, loads), the real Supervisor configuration of each instance, the pending requests,   *)
(* and what was actually sent (target, 0 = nothing) / displayed.                                                    *)
EXTENDS Placement, TLC, Json, IOUtils

Recs == JsonDeserialize(IOEnv.RECS_FILE)

Sit(r) == [n |-> r.n, node |-> r.node, running |-> r.running, knows |-> r.knows, disabled |-> r.disabled,
           allowed |-> r.allowed, load |-> r.load, pend |-> r.pend, L |-> r.L, strategy |-> r.strategy, req |-> r.req]

Failed(r) ==
  LET s == Sit(r)
      E == EligibleSet(s)
  IN (IF r.err # "" THEN {"NoErr"} ELSE {})
     \* C04: a request only goes to an eligible instance; nothing is sent when nobody is eligible
     \cup (IF r.target = 0 \/ r.target \in E THEN {} ELSE {"C04.OnlyEligible"})
     \cup (IF E = {} => (r.target = 0 /\ r.fatal) THEN {} ELSE {"C04.NoResource"})
     \cup (IF (E # {} /\ s.strategy # "LOCAL") => r.target # 0 THEN {} ELSE {"C04.Starved"})
     \* C14: the target follows the strategy
     \cup (IF r.target \in Choice(s) THEN {} ELSE {"C14.Choice"})

Check(i) == LET f == Failed(Recs[i]) IN IF f = {} THEN TRUE ELSE PrintT("V " \o ToJson([i |-> i, failed |-> f]))
ASSUME PrintT("N " \o ToString(Len(Recs)))
ASSUME \A i \in 1..Len(Recs) : Check(i)
=============================================================================
