--------------------------- MODULE ProcStatus ---------------------------
(* C11 - transcription of supvisors/process.py ProcessStatus for ONE process over K instances (add_info,       *)
(* update_info, force_state / reset_forced_state, invalidate_identifier, remove_identifier, update_status,     *)
(* _evaluate_conflict) under the guards supvisors/context.py applies before calling them, run in lock-step     *)
(* with the reference semantics of ProcStatusRef. The abstract state is finite: TLC exhausts ALL histories.    *)
EXTENDS ProcStatusRef, TLC, Json

CONSTANT FixedRemove   \* TRUE: remove_identifier also withdraws the instance from the running list (fix F13)

NoInfo == [present |-> FALSE, state |-> "UNKNOWN", expected |-> TRUE]

VARIABLES info,      \* info_map, per instance [present, state, expected]
          recv,      \* instances ordered by local_mtime (most recent last)
          running,   \* running_identifiers
          state,     \* synthetic state (_state)
          expected,  \* expected_exit
          forced,    \* forced_state ("NONE" when None)
          err,       \* a partial operation was applied outside its domain (KeyError / ValueError in the code)
          r,         \* reference ghost (ProcStatusRef)
          op,        \* last operation (history variable, hidden by the VIEW)
          hist       \* sequence of [rpre, op, post] (history variable, hidden by the VIEW; used by -simulate)

cvars == <<info, recv, running, state, expected, forced, err>>
vars == <<cvars, r, op, hist>>
View == <<cvars, r>>

Init == /\ info = [j \in Inst |-> NoInfo]
        /\ recv = <<>>
        /\ running = {}
        /\ state = "UNKNOWN"
        /\ expected = TRUE
        /\ forced = "NONE"
        /\ err = FALSE
        /\ r = RefInit
        /\ op = [o |-> "Init"]
        /\ hist = <<>>

Exists == \E j \in Inst : info[j].present

\* ProcessStatus.running_state
RunningState(S) == IF "RUNNING" \in S THEN "RUNNING"
                   ELSE IF "BACKOFF" \in S THEN "BACKOFF"
                   ELSE IF "STARTING" \in S THEN "STARTING"
                   ELSE IF "STOPPING" \in S THEN "STOPPING"
                   ELSE "UNKNOWN"

\* ProcessStatus.update_status(identifier=j, new_state=s) over the NEW info map ni / reception order nr
UpdateStatus(ni, nr, j, s) ==
  LET run1 == IF s \in StoppedS THEN running \ {j}
              ELSE IF s \in RunningS THEN (IF state \in StoppedS THEN {j} ELSE running \cup {j})
              ELSE running
  IN IF Cardinality(run1) >= 2
     THEN IF \E k \in run1 : ~ni[k].present
          THEN [running |-> run1, state |-> state, expected |-> expected, err |-> TRUE]      \* KeyError
          ELSE [running |-> run1, state |-> RunningState({ni[k].state : k \in run1}),
                expected |-> expected, err |-> FALSE]
     ELSE IF run1 # {}
     THEN LET k == CHOOSE k \in run1 : TRUE
          IN IF ~ni[k].present
             THEN [running |-> run1, state |-> state, expected |-> expected, err |-> TRUE]   \* KeyError
             ELSE [running |-> run1, state |-> ni[k].state, expected |-> TRUE, err |-> FALSE]
     ELSE IF \E k \in Inst : ni[k].present /\ ni[k].state = "STOPPING"
     THEN [running |-> run1, state |-> "STOPPING", expected |-> TRUE, err |-> FALSE]
     ELSE IF nr = <<>>
     THEN [running |-> run1, state |-> state, expected |-> expected, err |-> TRUE]           \* max() of empty
     ELSE LET k == nr[Len(nr)]
          IN [running |-> run1, state |-> ni[k].state, expected |-> ni[k].expected, err |-> FALSE]

Apply(u) == /\ running' = u.running
            /\ state' = u.state
            /\ expected' = u.expected
            /\ err' = (err \/ u.err)

Do(o) == op' = o /\ r' = RefStep(r, o)

\* Context.load_processes -> setdefault_process -> ProcessStatus.add_info (snapshot received at handshake)
Add(j, s, e) ==
  /\ ~err
  /\ LET ni == [info EXCEPT ![j] = [present |-> TRUE, state |-> s, expected |-> e]]
         nr == Append(Without(recv, j), j)
     IN /\ info' = ni
        /\ recv' = nr
        /\ forced' = IF s # "STOPPED" THEN "NONE" ELSE forced
        /\ Apply(UpdateStatus(ni, nr, j, s))
  /\ Do([o |-> "Add", j |-> j, s |-> s, e |-> e])

\* Context.on_process_state_event (not forced) -> check_process(check_source) -> ProcessStatus.update_info
Event(j, s, e) ==
  /\ ~err
  /\ info[j].present
  /\ LET ni == [info EXCEPT ![j] = [present |-> TRUE, state |-> s, expected |-> e]]
         nr == Append(Without(recv, j), j)
     IN /\ info' = ni
        /\ recv' = nr
        /\ forced' = "NONE"
        /\ Apply(UpdateStatus(ni, nr, j, s))
  /\ Do([o |-> "Event", j |-> j, s |-> s, e |-> e])

\* Context.on_process_state_event (forced) -> ProcessStatus.force_state; j = 0 stands for "no target identifier"
\* fresh: no information from the targeted instance is newer than the forced event
Force(j, s, fresh) ==
  /\ ~err
  /\ Exists
  /\ LET applies == IF j \in Inst /\ info[j].present THEN fresh ELSE TRUE
     IN forced' = IF applies THEN s ELSE forced
  /\ UNCHANGED <<info, recv, running, state, expected, err>>
  /\ Do([o |-> "Force", j |-> j, s |-> s, fresh |-> fresh])

\* Context.invalidate_failed -> ProcessStatus.invalidate_identifier (only for processes listed running there)
Invalidate(j) ==
  /\ ~err
  /\ info[j].present
  /\ IF j \in running /\ state \in RunningS      \* SupvisorsInstanceStatus.running_processes: running_on(j)
     THEN LET ni == [info EXCEPT ![j] = [present |-> TRUE, state |-> "FATAL", expected |-> FALSE]]
              nr == Append(Without(recv, j), j)
          IN /\ info' = ni
             /\ recv' = nr
             /\ forced' = "NONE"
             /\ Apply(UpdateStatus(ni, nr, j, "FATAL"))
     ELSE UNCHANGED cvars
  /\ Do([o |-> "Invalidate", j |-> j])

\* Context.on_process_removed_event -> ProcessStatus.remove_identifier; the process is dropped when nobody defines it
Remove(j) ==
  /\ ~err
  /\ info[j].present
  /\ LET ni == [info EXCEPT ![j] = NoInfo]
         nr == Without(recv, j)
     IN IF \A k \in Inst : ~ni[k].present
        THEN /\ info' = ni /\ recv' = <<>> /\ running' = {} /\ state' = "UNKNOWN" /\ expected' = TRUE
             /\ forced' = "NONE" /\ err' = err
        ELSE /\ info' = ni
             /\ recv' = nr
             /\ forced' = forced
             /\ IF FixedRemove /\ j \in running
                THEN Apply(UpdateStatus(ni, nr, j, "STOPPED"))
                ELSE UNCHANGED <<running, state, expected, err>>
  /\ Do([o |-> "Remove", j |-> j])

\* expected only differs from TRUE for stopped-like reports (Supervisor sets it on EXITED; FATAL comes unexpected)
Flags(s) == IF s \in {"EXITED", "FATAL"} THEN BOOLEAN ELSE {TRUE}

Next == \/ \E j \in Inst, s \in PStates : \E e \in Flags(s) : Add(j, s, e) \/ Event(j, s, e)
        \/ \E j \in 0..K, s \in ForcedS, f \in BOOLEAN : Force(j, s, f)
        \/ \E j \in Inst : Invalidate(j) \/ Remove(j)

Ser(i, rc, rn, st, ex, fo, er) ==
  [info |-> [j \in Inst |-> IF i[j].present THEN <<i[j].state, i[j].expected>> ELSE None],
   recv |-> rc, running |-> rn, state |-> st, expected |-> ex, forced |-> fo, err |-> er]

NextH == Next /\ hist' = Append(hist, [rpre |-> r, op |-> op',
                                       post |-> Ser(info', recv', running', state', expected', forced', err')])

Spec == Init /\ [][NextH]_vars

---------------------------------------------------------------------------
\* what the code shows (get_process_info / get_conflicts / get_inner_process_info)
CodeObs == [exists |-> Exists,
            state |-> state,
            displayed |-> IF forced = "NONE" THEN state ELSE forced,
            expected |-> expected,
            ids |-> running,
            conflict |-> Cardinality(running) >= 2,
            inner |-> [j \in Inst |-> IF info[j].present THEN <<info[j].state, info[j].expected>> ELSE None]]

\* Properties (C11): one INVARIANT line per conjunct of ObsOK
PExists == (r.taint = {} /\ ~err) => (CodeObs.exists = RExists(r))
PRunning == (r.taint = {} /\ ~err /\ Exists) => RunningOK(r, CodeObs)
PConflict == (r.taint = {} /\ ~err /\ Exists) => ConflictOK(r, CodeObs)
PShown == (r.taint = {} /\ ~err /\ Exists) => ShownOK(r, CodeObs)
PForced == (r.taint = {} /\ ~err /\ Exists) => ForcedOK(r, CodeObs)
PInner == (r.taint = {} /\ ~err /\ Exists) => InnerOK(r, CodeObs)
NoErr == ~err

---------------------------------------------------------------------------
\* transition log for the replay engine (evaluated on every generated successor, before the VIEW dedupe)
LogStep == PrintT("T " \o ToJson([pre |-> Ser(info, recv, running, state, expected, forced, err),
                                   op |-> op',
                                   post |-> Ser(info', recv', running', state', expected', forced', err'),
                                   rpre |-> r]))

\* behaviour log for -simulate: printed once, when the behaviour reaches length D
CONSTANT D
\* (TLC evaluates invariants on every candidate successor: only the canonical, always enabled, last candidate
\*  prints, and it prints the common prefix)
Canonical == op = [o |-> "Force", j |-> 0, s |-> "FATAL", fresh |-> TRUE]
             \/ op = [o |-> "Add", j |-> 1, s |-> "STOPPED", e |-> TRUE]
SimLog == (Len(hist) = D /\ Canonical) => PrintT("B " \o ToJson(SubSeq(hist, 1, D - 1)))
=============================================================================
