---------------------------- MODULE FailureMon ----------------------------
(* C06 monitor: the reference of FailureRef evaluated by TLC on outcomes recorded from the real                  *)
(* RunningFailureHandler. Record: [pre (j: sets, stopped, busy, rApp, rProc), op, obs (sets after), calls, err]. *)
EXTENDS FailureRef, TLC, Json, IOUtils

Recs == JsonDeserialize(IOEnv.RECS_FILE)
ToSet(s) == {s[i] : i \in DOMAIN s}
\* JSON objects keyed "1","2" come back as records/sequences: rApp is an array, rProc is keyed by tuples in TLA
\* but serialised by ToJson as a list of pairs - see RProc below
RApp(x) == [a \in Apps |-> x[a]]

Failed(rec) ==
  LET ra == RApp(rec.pre.rApp)
      rp == [p \in Procs |-> rec.pre.rProc[p[1]][p[2]]]
      stp == [a \in Apps |-> rec.pre.stopped[a]]
      busy == ToSet(rec.pre.busy)
      p == <<rec.op.a, rec.op.k>>
      n == CASE rec.op.o = "AddJob" -> RefAddF(ra, rp, stp, rec.op.s, p, FALSE) @@ [out |-> {}]
             [] rec.op.o = "AddDefault" -> RefAddF(ra, rp, stp, rec.op.s, p, TRUE) @@ [out |-> {}]
             [] rec.op.o = "Abort" -> [ra |-> [a \in Apps |-> "NONE"], rp |-> [q \in Procs |-> "NONE"], out |-> {}]
             [] rec.op.o = "Trigger" -> RefTriggerF(ra, rp, busy)
      want == RefSets(n.ra, n.rp)
      got == [sa |-> ToSet(rec.obs.sa), ra |-> ToSet(rec.obs.ra), rp |-> ToSet(rec.obs.rp), cp |-> ToSet(rec.obs.cp)]
      calls == ToSet(rec.calls)
  IN (IF rec.err # "" THEN {"NoErr"} ELSE {})
     \cup (IF got.sa = want.sa /\ got.ra = want.ra THEN {} ELSE {"Precedence.app"})
     \cup (IF got.rp = want.rp /\ got.cp = want.cp THEN {} ELSE {"Precedence.process"})
     \cup (IF got.sa \cap got.ra = {} THEN {} ELSE {"Exclusive"})
     \cup (IF calls = n.out THEN {} ELSE {"Trigger"})

Check(i) == LET f == Failed(Recs[i]) IN IF f = {} THEN TRUE ELSE PrintT("V " \o ToJson([i |-> i, failed |-> f]))
ASSUME PrintT("N " \o ToString(Len(Recs)))
ASSUME \A i \in 1..Len(Recs) : Check(i)
=============================================================================
