----------------------------- MODULE PredictMon -----------------------------
(* C19 monitor. One record per (situation, prediction x k, real start) observed on real cores:                     *)
(*   silent    no request was pushed on any proxy FIFO by the predictions                                           *)
(*   same      the full status snapshot (process infos incl. per-instance information, application infos,          *)
(*             instance loads, jobs in progress) is identical before and after the predictions                     *)
(*   stable    repeated predictions returned the same answer                                                       *)
(*   predicted set of <<process, instance>> (0: predicted not started)                                              *)
(*   actual    set of <<process, instance>> for the START requests of the real start (0: no request, FATAL shown)  *)
(*   fault     both calls were refused with the same fault (nothing to compare)                                    *)
EXTENDS Naturals, Sequences, FiniteSets, TLC, Json, IOUtils

Recs == JsonDeserialize(IOEnv.RECS_FILE)
ToSet(q) == {q[i] : i \in DOMAIN q}

Failed(r) ==
  (IF r.err # "" THEN {"NoErr"} ELSE {})
  \cup (IF r.silent THEN {} ELSE {"C19.Silent"})
  \cup (IF r.same THEN {} ELSE {"C19.Unchanged"})
  \cup (IF r.stable THEN {} ELSE {"C19.Repeatable"})
  \cup (IF r.fault \/ ToSet(r.predicted) = ToSet(r.actual) THEN {} ELSE {"C19.Matches"})

Check(i) == LET f == Failed(Recs[i]) IN IF f = {} THEN TRUE ELSE PrintT("V " \o ToJson([i |-> i, failed |-> f]))
ASSUME PrintT("N " \o ToString(Len(Recs)))
ASSUME \A i \in 1..Len(Recs) : Check(i)
=============================================================================
