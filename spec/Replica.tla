------------------------------ MODULE Replica ------------------------------
(* C12 - the replicated process database: what every instance believes about where a process runs, against what   *)
(* the Supervisors really run.                                                                                     *)
(* One program configured on every instance j (truth[j] = its state in Supervisor j). Instance i keeps a record    *)
(* view[i][j] of the process on j, fed by (1) the snapshot pulled during the handshake (CHECKING): the proxy thread *)
(* of i calls j (Pull), the result is handed to the main loop of i as a notification (Notify) that loads it and     *)
(* moves j to CHECKED; (2) the process events that j publishes to the peers it holds in an active state and that i  *)
(* accepts only from CHECKED / RUNNING peers (the sender's filter is evaluated by its proxy thread when it serves the  *)
(* queued event, not when the event happens). Ticks travel in the same FIFOs as the events. Instances crash, are     *)
(* detected (Detect = inactivity timeout + invalidation) and restart.                                               *)
(* FixF4 = TRUE is the design in which nothing is lost: events are published to every peer, the events received     *)
(* while CHECKING are kept and replayed after the snapshot when they are newer (version stamps).                    *)
EXTENDS Naturals, Sequences, FiniteSets, TLC

CONSTANTS N,           \* instances 1..N
          MaxEvents,   \* process state changes
          MaxCrash, MaxRestart,
          FixF4

I == 1..N
PS == {"STOPPED", "STARTING", "RUNNING", "STOPPING", "EXITED", "FATAL"}
RunningLike == {"STARTING", "RUNNING"}
Active == {"CHECKING", "CHECKED", "RUNNING", "FAILED"}
NextPS(s) == CASE s \in {"STOPPED", "EXITED", "FATAL"} -> {"STARTING"}
               [] s = "STARTING" -> {"RUNNING", "FATAL"}
               [] s = "RUNNING" -> {"STOPPING", "EXITED"}
               [] s = "STOPPING" -> {"STOPPED"}

VARIABLES alive, truth, ver,      \* ver[j]: number of state changes of the process on j (stamp)
          inst, view, vver,       \* inst[i][j]: state of j at i; view[i][j] / vver[i][j]: record of the process on j at i
          q,                      \* q[j][i]: FIFO from j to i: <<"T">> or <<"P", state, version>>
          hs, snap,               \* hs[i][j] in {"no", "req", "got"}: handshake of j by i; snap[i][j] = <<state, version>>
          buf,                    \* FixF4: events received while CHECKING
          lost,                   \* ghost: lost[i][j] = an event of j newer than what i holds was not sent to / dropped by i
          nev, ncrash, nrestart
vars == <<alive, truth, ver, inst, view, vver, q, hs, snap, buf, lost, nev, ncrash, nrestart>>

Others(i) == I \ {i}
Init == /\ alive = [i \in I |-> TRUE] /\ truth = [i \in I |-> "STOPPED"] /\ ver = [i \in I |-> 0]
        /\ inst = [i \in I |-> [j \in I |-> IF i = j THEN "RUNNING" ELSE "STOPPED"]]
        /\ view = [i \in I |-> [j \in I |-> IF i = j THEN "STOPPED" ELSE "NONE"]]
        /\ vver = [i \in I |-> [j \in I |-> 0]]
        /\ q = [j \in I |-> [i \in I |-> <<>>]]
        /\ hs = [i \in I |-> [j \in I |-> "no"]] /\ snap = [i \in I |-> [j \in I |-> <<"STOPPED", 0>>]]
        /\ buf = [i \in I |-> [j \in I |-> <<>>]]
        /\ lost = [i \in I |-> [j \in I |-> FALSE]]
        /\ nev = 0 /\ ncrash = 0 /\ nrestart = 0

\* --- ticks -------------------------------------------------------------------------------------------------
Tick(j) == /\ alive[j]
           /\ \A i \in Others(j) : Len(q[j][i]) < 2          \* (bound: a slow proxy holds at most 2 items)
           /\ q' = [q EXCEPT ![j] = [i \in I |-> IF i # j /\ alive[i] THEN Append(q[j][i], <<"T">>) ELSE q[j][i]]]
           \* the local tick activates the peers that passed the handshake
           /\ inst' = [inst EXCEPT ![j] = [k \in I |-> IF inst[j][k] = "CHECKED" THEN "RUNNING" ELSE inst[j][k]]]
           /\ UNCHANGED <<alive, truth, ver, view, vver, hs, snap, buf, lost, nev, ncrash, nrestart>>

\* --- process activity ------------------------------------------------------------------------------------------
Proc(j, s) == /\ alive[j] /\ nev < MaxEvents /\ s \in NextPS(truth[j])
              /\ truth' = [truth EXCEPT ![j] = s] /\ ver' = [ver EXCEPT ![j] = @ + 1]
              \* the local event is taken by the same acceptance rule: only once j has finished its own handshake
              /\ IF FixF4 \/ inst[j][j] \in {"CHECKED", "RUNNING"}
                 THEN view' = [view EXCEPT ![j][j] = s] /\ vver' = [vver EXCEPT ![j][j] = ver[j] + 1] /\ UNCHANGED lost
                 ELSE lost' = [lost EXCEPT ![j][j] = TRUE] /\ UNCHANGED <<view, vver>>
              \* the event is queued for every peer; the proxy thread of j decides when it serves the item (Deliver)
              /\ q' = [q EXCEPT ![j] = [i \in I |-> IF i # j /\ alive[i] THEN Append(q[j][i], <<"P", s, ver[j] + 1>>)
                                                       ELSE q[j][i]]]
              /\ nev' = nev + 1
              /\ UNCHANGED <<alive, inst, hs, snap, buf, ncrash, nrestart>>

\* --- deliveries ------------------------------------------------------------------------------------------------
Deliver(j, i) ==
  /\ i # j /\ q[j][i] # <<>> /\ alive[i]
  /\ LET m == Head(q[j][i])
     IN /\ q' = [q EXCEPT ![j][i] = Tail(@)]
        /\ IF m[1] = "T"
           THEN /\ IF inst[i][j] = "STOPPED"
                   THEN inst' = [inst EXCEPT ![i][j] = "CHECKING"] /\ hs' = [hs EXCEPT ![i][j] = "req"]
                   ELSE UNCHANGED <<inst, hs>>
                /\ UNCHANGED <<view, vver, buf, lost>>
           ELSE /\ UNCHANGED <<inst, hs>>
                \* sender filter, evaluated when the proxy of j serves the item: only to peers j holds in an active state
                /\ IF ~FixF4 /\ inst[j][i] \notin Active
                   THEN lost' = [lost EXCEPT ![i][j] = TRUE] /\ UNCHANGED <<view, vver, buf>>
                   ELSE IF inst[i][j] \in {"CHECKED", "RUNNING"}
                   THEN /\ view' = [view EXCEPT ![i][j] = m[2]] /\ vver' = [vver EXCEPT ![i][j] = m[3]]
                        /\ UNCHANGED <<buf, lost>>
                   ELSE IF FixF4 /\ inst[i][j] = "CHECKING"
                        THEN buf' = [buf EXCEPT ![i][j] = Append(@, m)] /\ UNCHANGED <<view, vver, lost>>
                        ELSE lost' = [lost EXCEPT ![i][j] = TRUE] /\ UNCHANGED <<view, vver, buf>>
  /\ UNCHANGED <<alive, truth, ver, snap, nev, ncrash, nrestart>>

\* --- handshake ---------------------------------------------------------------------------------------------------
Pull(i, j) == /\ alive[i] /\ hs[i][j] = "req"
              /\ IF alive[j]
                 THEN /\ snap' = [snap EXCEPT ![i][j] = <<truth[j], ver[j]>>] /\ hs' = [hs EXCEPT ![i][j] = "got"]
                      \* what was lost before the snapshot does not matter any more
                      /\ lost' = [lost EXCEPT ![i][j] = FALSE]
                      /\ UNCHANGED inst
                 ELSE /\ hs' = [hs EXCEPT ![i][j] = "no"] /\ inst' = [inst EXCEPT ![i][j] = "STOPPED"]
                      /\ UNCHANGED <<snap, lost>>
              /\ UNCHANGED <<alive, truth, ver, view, vver, q, buf, nev, ncrash, nrestart>>

Notify(i, j) == /\ alive[i] /\ hs[i][j] = "got" /\ inst[i][j] = "CHECKING"
                /\ hs' = [hs EXCEPT ![i][j] = "no"] /\ inst' = [inst EXCEPT ![i][j] = "CHECKED"]
                /\ LET newer == SelectSeq(buf[i][j], LAMBDA m : m[3] > snap[i][j][2])
                   IN IF FixF4 /\ newer # <<>>
                      THEN /\ view' = [view EXCEPT ![i][j] = newer[Len(newer)][2]]
                           /\ vver' = [vver EXCEPT ![i][j] = newer[Len(newer)][3]]
                      ELSE IF FixF4 /\ vver[i][j] > snap[i][j][2]
                           THEN UNCHANGED <<view, vver>>           \* (the record is already newer than the snapshot)
                           ELSE /\ view' = [view EXCEPT ![i][j] = snap[i][j][1]]
                                /\ vver' = [vver EXCEPT ![i][j] = snap[i][j][2]]
                /\ buf' = [buf EXCEPT ![i][j] = <<>>]
                /\ UNCHANGED <<alive, truth, ver, q, snap, lost, nev, ncrash, nrestart>>

\* --- faults ------------------------------------------------------------------------------------------------------
Crash(j) == /\ alive[j] /\ ncrash < MaxCrash
            /\ alive' = [alive EXCEPT ![j] = FALSE]
            /\ q' = [a \in I |-> [b \in I |-> IF a = j \/ b = j THEN <<>> ELSE q[a][b]]]
            /\ hs' = [hs EXCEPT ![j] = [k \in I |-> "no"]]
            /\ ncrash' = ncrash + 1
            /\ UNCHANGED <<truth, ver, inst, view, vver, snap, buf, lost, nev, nrestart>>

\* i notices that j is gone (inactivity or failed call) and invalidates it: the process is not running there any more
Detect(i, j) == /\ alive[i] /\ ~alive[j] /\ inst[i][j] \in Active /\ hs[i][j] # "req"
                /\ inst' = [inst EXCEPT ![i][j] = "STOPPED"] /\ hs' = [hs EXCEPT ![i][j] = "no"]
                /\ view' = [view EXCEPT ![i][j] = IF @ \in RunningLike \cup {"STOPPING"} THEN "FATAL" ELSE @]
                /\ buf' = [buf EXCEPT ![i][j] = <<>>] /\ lost' = [lost EXCEPT ![i][j] = FALSE]
                /\ UNCHANGED <<alive, truth, ver, vver, q, snap, nev, ncrash, nrestart>>

Restart(j) == /\ ~alive[j] /\ nrestart < MaxRestart
              \* a peer that has not noticed the loss yet keeps its records of the previous incarnation: it will not
              \* handshake again (restart faster than detection), the reset of the process table never reaches it
              /\ alive' = [alive EXCEPT ![j] = TRUE]
              /\ truth' = [truth EXCEPT ![j] = "STOPPED"] /\ ver' = [ver EXCEPT ![j] = @ + 1]
              \* a restarted instance handshakes itself first (its own process table is pulled like a peer's)
              \* (FixF4: the new incarnation is recognised at once by the peers, which forget the old one and will
              \* handshake again - e.g. an incarnation number in the ticks)
              /\ inst' = [i \in I |-> [k \in I |-> IF i = j THEN (IF k = j THEN "CHECKING" ELSE "STOPPED")
                                                   ELSE IF k = j /\ FixF4 THEN "STOPPED" ELSE inst[i][k]]]
              /\ view' = [i \in I |-> [k \in I |-> IF i = j THEN "NONE"
                                                   ELSE IF k = j /\ FixF4 /\ view[i][k] \in RunningLike \cup {"STOPPING"}
                                                        THEN "FATAL" ELSE view[i][k]]]
              /\ vver' = [vver EXCEPT ![j] = [k \in I |-> 0]]
              /\ buf' = [i \in I |-> [k \in I |-> IF i = j \/ k = j THEN <<>> ELSE buf[i][k]]]
              /\ lost' = [i \in I |-> [k \in I |-> IF i = j THEN FALSE
                                                   ELSE IF k = j /\ alive[i] /\ inst[i][j] \in Active /\ ~FixF4 THEN TRUE
                                                   ELSE lost[i][k]]]
              /\ hs' = [i \in I |-> [k \in I |-> IF i = j THEN (IF k = j THEN "req" ELSE "no")
                                                 ELSE IF k = j /\ FixF4 THEN "no" ELSE hs[i][k]]]
              /\ nrestart' = nrestart + 1
              /\ UNCHANGED <<q, snap, nev, ncrash>>

Next == \/ \E j \in I : Tick(j) \/ Crash(j) \/ Restart(j) \/ \E s \in PS : Proc(j, s)
        \/ \E i, j \in I : Deliver(j, i) \/ Pull(i, j) \/ Notify(i, j) \/ (i # j /\ Detect(i, j))
Spec == Init /\ [][Next]_vars

-----------------------------------------------------------------------------
TypeOK == /\ truth \in [I -> PS] /\ alive \in [I -> BOOLEAN]
          /\ \A i, j \in I : inst[i][j] \in {"STOPPED", "CHECKING", "CHECKED", "RUNNING", "FAILED"}

\* all pending messages delivered, no handshake in progress, every live instance sees every live instance RUNNING
Quiescent == /\ \A a, b \in I : q[a][b] = <<>> /\ hs[a][b] = "no"
             /\ \A i, j \in I : alive[i] => inst[i][j] = (IF alive[j] THEN "RUNNING" ELSE "STOPPED")
RunsAt(i, j) == inst[i][j] = "RUNNING" /\ view[i][j] \in RunningLike
RunsSet(i) == {j \in I : RunsAt(i, j)}
\* C12 as stated
Agreement == Quiescent => \A i, k \in I : (alive[i] /\ alive[k]) => RunsSet(i) = RunsSet(k)
Truth == Quiescent => \A i \in I : alive[i] => RunsSet(i) = {j \in I : alive[j] /\ truth[j] \in RunningLike}
\* what the current design guarantees: a wrong record is always explained by an event that was lost after the snapshot
TruthOrLost == Quiescent => \A i, j \in I : (alive[i] /\ alive[j] /\ ~lost[i][j]) =>
                                             (RunsAt(i, j) <=> truth[j] \in RunningLike)
\* (records may go backwards for a while: events older than the snapshot are still in the FIFO and are applied after
\* it; the FIFO then brings the newer ones)
=============================================================================
