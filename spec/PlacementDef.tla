---------------------------- MODULE PlacementDef ----------------------------
(* E1 for the definition itself: over a small full space of situations the choice is optimal for the strategy's    *)
(* key, respects eligibility and is never empty.                                                                    *)
EXTENDS Placement, TLC

Strats == {"CONFIG", "LESS_LOADED", "MOST_LOADED", "LESS_LOADED_NODE", "MOST_LOADED_NODE", "LOCAL"}
Loads == {0, 40, 70}
Sits == {[n |-> 3, node |-> <<1, 1, 2>>, running |-> <<TRUE, r2, r3>>, knows |-> k, disabled |-> <<FALSE, d2, FALSE>>,
          allowed |-> a, load |-> l, pend |-> <<0, p2, p3>>, L |-> ll, strategy |-> st, req |-> 1] :
         r2 \in BOOLEAN, r3 \in BOOLEAN, k \in [1..3 -> BOOLEAN], d2 \in BOOLEAN,
         a \in {<<1, 2, 3>>, <<3, 1>>, <<2>>}, l \in [1..3 -> Loads], p2 \in {0, 30}, p3 \in {0, 30},
         ll \in {10, 40, 70}, st \in Strats}

ASSUME \A s \in Sits :
   LET C == Choice(s)  E == EligibleSet(s)
   IN /\ C # {}
      /\ (E = {} <=> C = {0}) \/ s.strategy = "LOCAL"
      /\ C \subseteq E \cup {0}
      \* optimality on the primary key
      /\ s.strategy = "LESS_LOADED" => \A c \in C \ {0} : \A e \in E : InstLoad(s, c) <= InstLoad(s, e)
      /\ s.strategy = "MOST_LOADED" => \A c \in C \ {0} : \A e \in E : InstLoad(s, c) >= InstLoad(s, e)
      /\ s.strategy = "LESS_LOADED_NODE" => \A c \in C \ {0} : \A e \in E : NodeLoad(s, c) <= NodeLoad(s, e)
      /\ s.strategy = "MOST_LOADED_NODE" => \A c \in C \ {0} : \A e \in E : NodeLoad(s, c) >= NodeLoad(s, e)
ASSUME PrintT("N " \o ToString(Cardinality(Sits)))
=============================================================================
