----------------------------- MODULE Placement -----------------------------
(* C04 / C14 - definition of eligibility and of the starting strategies, from the documentation.                   *)
(* A situation s is a record:                                                                                      *)
(*   n        number of instances 1..n (declared order = mapper order)                                             *)
(*   node     [1..n -> node id]                                                                                    *)
(*   running  [1..n -> BOOLEAN]   RUNNING in the requester's view                                                  *)
(*   knows    [1..n -> BOOLEAN]   the Supervisor of the instance knows the program                                 *)
(*   disabled [1..n -> BOOLEAN]   the program is disabled there                                                    *)
(*   allowed  sequence of instances permitted by the applicable identifiers rule, in declared order                *)
(*   load     [1..n -> 0..100+]   expected_loading of what runs on the instance                                    *)
(*   pend     [1..n -> 0..100+]   expected_loading of the starts already requested there                           *)
(*   L        expected_loading of the program;  strategy;  req: the requesting instance                            *)
EXTENDS Naturals, Sequences, FiniteSets

Insts(s) == 1..s.n
Range(q) == {q[i] : i \in DOMAIN q}
SumOver(S, f(_)) == LET RECURSIVE Sm(_)
                        Sm(T) == IF T = {} THEN 0 ELSE LET x == CHOOSE y \in T : TRUE IN f(x) + Sm(T \ {x})
                    IN Sm(S)
NodeLoad(s, i) == LET same == {j \in Insts(s) : s.node[j] = s.node[i]}
                      F(j) == s.load[j] + s.pend[j]
                  IN SumOver(same, F)
InstLoad(s, i) == s.load[i] + s.pend[i]

Eligible(s, i) == /\ s.running[i] /\ s.knows[i] /\ ~s.disabled[i] /\ i \in Range(s.allowed)
                  /\ NodeLoad(s, i) + s.L <= 100
EligibleSet(s) == {i \in Insts(s) : Eligible(s, i)}

\* instances of S extreme on key1 (min when less), ties broken by key2 (the documentation does not give the
\* direction of the tie-break: both extremes of key2 are admitted)
Extreme(S, k1(_), k2(_), less) ==
  LET best1 == {i \in S : \A j \in S : IF less THEN k1(i) <= k1(j) ELSE k1(i) >= k1(j)}
  IN {i \in best1 : (\A j \in best1 : k2(i) <= k2(j)) \/ (\A j \in best1 : k2(i) >= k2(j))}

\* admitted targets (0 = nothing sent, the process is FATAL 'No resource available')
Choice(s) ==
  LET E == EligibleSet(s)
      IL(i) == InstLoad(s, i)
      NL(i) == NodeLoad(s, i)
  IN IF E = {} THEN {0}
     ELSE CASE s.strategy = "CONFIG" ->
                 LET idx == {k \in DOMAIN s.allowed : s.allowed[k] \in E}
                     first == CHOOSE k \in idx : \A m \in idx : k <= m
                 IN {s.allowed[first]}
            [] s.strategy = "LESS_LOADED" -> Extreme(E, IL, NL, TRUE)
            [] s.strategy = "MOST_LOADED" -> Extreme(E, IL, NL, FALSE)
            [] s.strategy = "LESS_LOADED_NODE" -> Extreme(E, NL, IL, TRUE)
            [] s.strategy = "MOST_LOADED_NODE" -> Extreme(E, NL, IL, FALSE)
            [] s.strategy = "LOCAL" -> IF s.req \in E THEN {s.req} ELSE {0}
=============================================================================
