CONSTANTS K = 2
