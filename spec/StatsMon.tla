------------------------------ MODULE StatsMon ------------------------------
(* C20 monitor: formulas evaluated by TLC on what the REAL statistics compilers hold / return after each push.     *)
(* Record: depth, period (scaled x1000), elapsed (now - reference now, scaled x1000; -1: no reference yet),         *)
(*   produced (a point was returned), tlen (len(times)), slens (lengths of the cpu series and of mem),             *)
(*   keys: sequence of [tl (length of the key's time series), vls (lengths of its value series)],                   *)
(*   cpu: per-core percentages of the produced point x1000, cores: number of cores the process may use,             *)
(*   rates: I/O rates of the produced point x1000 (or -1 when not finite), dropped: pid 0 => no history left,       *)
(*   err: exception text                                                                                            *)
EXTENDS Naturals, Integers, Sequences, FiniteSets, TLC, Json, IOUtils

Recs == JsonDeserialize(IOEnv.RECS_FILE)

Failed(r) ==
  (IF r.err # "" THEN {"NoErr"} ELSE {})
  \cup (IF r.tlen <= r.depth /\ (\A i \in DOMAIN r.slens : r.slens[i] <= r.depth)
           /\ (\A i \in DOMAIN r.keys : r.keys[i].tl <= r.depth /\ \A j \in DOMAIN r.keys[i].vls : r.keys[i].vls[j] <= r.depth)
        THEN {} ELSE {"Bounded"})
  \cup (IF (\A i \in DOMAIN r.slens : r.slens[i] = r.tlen)
           /\ (\A i \in DOMAIN r.keys : \A j \in DOMAIN r.keys[i].vls : r.keys[i].vls[j] = r.keys[i].tl)
           \* (an interface / disk history never holds more points than the instance has integration times)
           /\ (\A i \in DOMAIN r.keys : r.keys[i].tl <= r.tlen)
        THEN {} ELSE {"Aligned"})
  \cup (IF r.produced => (r.elapsed >= 0 /\ r.elapsed >= r.period) THEN {} ELSE {"PeriodGate"})
  \cup (IF \A i \in DOMAIN r.cpu : r.cpu[i] >= 0 /\ r.cpu[i] <= 100000 * r.cores THEN {} ELSE {"CpuRange"})
  \cup (IF \A i \in DOMAIN r.rates : r.rates[i] >= 0 THEN {} ELSE {"RateSane"})
  \cup (IF r.dropped THEN {} ELSE {"Dropped"})

Check(i) == LET f == Failed(Recs[i]) IN IF f = {} THEN TRUE ELSE PrintT("V " \o ToJson([i |-> i, failed |-> f]))
ASSUME PrintT("N " \o ToString(Len(Recs)))
ASSUME \A i \in 1..Len(Recs) : Check(i)
=============================================================================
