------------------------------ MODULE Cluster ------------------------------
(* N Supvisors instances: membership (handshake, tick-based failure detection), state & modes publication,     *)
(* Master election and the Supvisors finite state machine, over per-pair proxy FIFOs and a per-instance        *)
(* notification FIFO - an implementation-shaped transcription of                                               *)
(*   listener.py (on_tick, read_publication, read_notification), context.py (on_*_tick_event, on_timer_event,  *)
(*   on_authorization, invalidate, invalidate_failed, activate_checked), instancestatus.py (state setter,     *)
(*   is_inactive, is_checking), statemodes.py (update_instance_state, evaluate_stability, check_master,       *)
(*   select_master, accept_master), statemachine.py (all state classes, FiniteStateMachine.next/set_state,    *)
(*   on_state_event, on_restart/on_shutdown/on_end_sync) and internal_com/supervisorproxy.py (publish with    *)
(*   its filter, check_instance, handle_exception, push_* of the proxy server).                               *)
(* One action = one critical section: a Supervisor-main-thread callback, or one queued item of one proxy.     *)
(* Starter / Stopper / conflicts are abstracted: the Master may be held in DISTRIBUTION by the environment.  *)
EXTENDS Naturals, Sequences, FiniteSets, TLC, Json

CONSTANTS N,           \* instances 1..N; nick identifiers ordered like the numbers
          Core,        \* core_identifiers (subset of 1..N)
          Sync,        \* synchro_options after check_options: subset of {"STRICT","LIST","TIMEOUT","CORE","USER"}
          AutoFence,   \* auto_fence
          FailStrat,   \* supvisors_failure_strategy after check_options: "CONTINUE" | "RESYNC" | "SHUTDOWN"
          T,           \* inactivity_ticks
          SyncTicks,   \* synchro_timeout in ticks
          MaxCrash, MaxRestart, MaxCut, MaxUser, MaxConflict,   \* fault / user request / environment budgets
          SlowQ,       \* set of 10*i+j: FIFOs i->j scheduled freely; all other non-empty FIFOs are eager (priority)
          Checkpoint,  \* "COLD" | "JOIN": initial states
          FixF1,       \* TRUE: CONCILIATION -> ELECTION is in the transition table (fix F1)
          FixF5,       \* TRUE: on_instance_failure ignores instances that are not in an active state (fix F5)
          Mismatch,    \* instances configured with other strategies than the rest (handshake -> INCONSISTENT)
          HoldDist,    \* TRUE: the Starter of the Master is in progress when DISTRIBUTION is entered (until Release)
          MaxRound     \* bound on the number of tick rounds (state constraint)

Inst == 1..N
NoMaster == 0
P == INSTANCE ClusterProps

IStates == {"STOPPED", "CHECKING", "CHECKED", "RUNNING", "FAILED", "ISOLATED"}
Active(s) == s \in {"CHECKING", "CHECKED", "RUNNING", "FAILED"}
StableS == {"RUNNING", "STOPPED", "ISOLATED"}
\* SupvisorsInstanceStatus._Transitions
ITrans(s) == CASE s = "STOPPED" -> {"CHECKING"}
               [] s = "CHECKING" -> {"STOPPED", "CHECKED", "FAILED", "ISOLATED"}
               [] s = "CHECKED" -> {"RUNNING", "FAILED"}
               [] s = "RUNNING" -> {"FAILED"}
               [] s = "FAILED" -> {"STOPPED", "ISOLATED"}
               [] s = "ISOLATED" -> {}

FStates == {"OFF", "SYNCHRONIZATION", "ELECTION", "DISTRIBUTION", "OPERATION", "CONCILIATION", "RESTARTING",
            "SHUTTING_DOWN", "FINAL"}
Working == {"ELECTION", "DISTRIBUTION", "OPERATION", "CONCILIATION"}
\* FiniteStateMachine._Transitions (the CODE's table; the documented graph G of C02 is in ClusterProps)
FTrans(s) == CASE s = "OFF" -> {"SYNCHRONIZATION"}
               [] s = "SYNCHRONIZATION" -> {"OFF", "ELECTION"}
               [] s = "ELECTION" -> {"OFF", "SYNCHRONIZATION", "DISTRIBUTION", "SHUTTING_DOWN"}
               [] s = "DISTRIBUTION" -> {"OFF", "ELECTION", "OPERATION", "RESTARTING", "SHUTTING_DOWN"}
               [] s = "OPERATION" -> {"OFF", "SYNCHRONIZATION", "ELECTION", "CONCILIATION", "RESTARTING",
                                      "SHUTTING_DOWN"}
               [] s = "CONCILIATION" -> {"OFF", "SYNCHRONIZATION", "OPERATION", "RESTARTING", "SHUTTING_DOWN"}
                                        \cup (IF FixF1 THEN {"ELECTION"} ELSE {})
               [] s = "RESTARTING" -> {"FINAL"}
               [] s = "SHUTTING_DOWN" -> {"FINAL"}
               [] s = "FINAL" -> {}

\* a StateModes record as published / stored; ist = <<>> for a fresh one (instance_states = {})
FreshSM == [fsm |-> "OFF", master |-> NoMaster, ist |-> <<>>]

VARIABLES alive,    \* [Inst -> BOOLEAN]
          tick,     \* [Inst -> Nat]   listener.counter
          fsm,      \* [Inst -> FStates]
          master,   \* [Inst -> Inst \cup {0}]
          inst,     \* [Inst -> [Inst -> IStates]]   local view of each instance
          seen,     \* [Inst -> [Inst -> Nat]]   times.local_sequence_counter (local tick of the last TICK received)
          rem,      \* [Inst -> [Inst -> Nat]]   times.remote_sequence_counter
          sm,       \* [Inst -> [Inst -> StateModes]]   stored state & modes of the peers
          mark,     \* [Inst -> BOOLEAN]   update_mark
          deg,      \* [Inst -> BOOLEAN]   degraded_mode
          hold,     \* [Inst -> BOOLEAN]   environment: Starter in progress on this instance (holds DISTRIBUTION)
          q,        \* [Inst -> [Inst -> Seq(Item)]]   proxy FIFOs; q[i][i] is the local proxy (notifications)
          cut,      \* set of <<i, j>>: no transport from i to j (directed; a partition is two cuts)
          ticked,   \* live instances that already ticked in the current round (ticks are periodic: every live
                    \* instance ticks once per round, in any order)
          round,    \* number of completed rounds
          conflict, \* environment: a conflict is visible to the Master (context.conflicting())
          inc,      \* [Inst -> Nat]  incarnation number
          g,        \* ghost record of ClusterProps (a function of the history)
          calm,     \* consecutive completed rounds without disturbance and ending with empty FIFOs (capped)
          dirty,    \* a disturbance (fault / user request / environment change) happened in the current round
          ended,    \* a restart / shutdown was requested by a user
          budget,   \* [crash, restart, cut, user |-> Nat]
          err,      \* [Inst -> BOOLEAN]  an internal error was raised (partial operation outside its domain)
          refused,  \* [Inst -> Nat]  consecutive evaluations whose proposal the table refused
          pubs,     \* output of the last action: sequence of [n, fsm, master, mstate, from] publications
          ipubs,    \* output of the last action: sequence of <<n, peer, state>> instance status changes
          act,      \* label of the last action (history, hidden by the VIEW)
          hist      \* behaviour log [a, p] used by -simulate only (constant <<>> under Spec)

core == <<alive, tick, fsm, master, inst, seen, rem, sm, mark, deg, hold, q, cut, ticked, round, conflict, budget,
          err, refused, inc>>
ghost == <<g, calm, dirty, ended>>
vars == <<core, ghost, pubs, ipubs, act, hist>>
View == <<core, ghost>>

-----------------------------------------------------------------------------
(* Local evaluation record L: the part of the state of instance L.i that a main-thread callback reads/writes. *)
(* out: ordered sends: <<"PUB", payload, targets>> | <<"REQ", j, kind>> | <<"NOT", j, kind, arg>>            *)
(* stale: peers whose pending handshake notifications become stale (a new CHECKING epoch started)            *)

Local(i) == [i |-> i, fsm |-> fsm[i], master |-> master[i], inst |-> inst[i], seen |-> seen[i], rem |-> rem[i],
             sm |-> sm[i], mark |-> mark[i], deg |-> deg[i], hold |-> hold[i], tick |-> tick[i],
             out |-> <<>>, pubs |-> <<>>, ipubs |-> <<>>, lost |-> {}, stale |-> {}, err |-> FALSE,
             refused |-> refused[i], stop |-> "NONE"]

LocalSM(L) == [fsm |-> L.fsm, master |-> L.master, ist |-> L.inst]
SMof(L, j) == IF j = L.i THEN LocalSM(L) ELSE L.sm[j]
Targets(L) == {j \in Inst : j # L.i /\ L.inst[j] # "ISOLATED"}      \* proxy_server.push_publication

\* state_modes.publish_status: STATE publication to every non-isolated peer + external publication
Publish(L) ==
  [L EXCEPT !.out = Append(@, <<"PUB", [k |-> "STATE", sm |-> LocalSM(L)], Targets(L)>>),
            !.pubs = Append(@, [n |-> L.i, fsm |-> L.fsm, master |-> L.master,
                                mstate |-> IF L.master = NoMaster THEN "NONE" ELSE L.inst[L.master],
                                ist |-> L.inst,
                                decl |-> [j \in Inst |-> IF j = L.i THEN NoMaster ELSE L.sm[j].master]])]

SetMaster(L, m) == IF L.master = m THEN L ELSE Publish([L EXCEPT !.master = m])
SetDeg(L, d) == IF L.deg = d THEN L ELSE Publish([L EXCEPT !.deg = d])

\* SupvisorsInstanceStatus.state setter + SupvisorsStateModes.update_instance_state
SetInst(L, j, s) ==
  IF L.err \/ L.inst[j] = s THEN L
  ELSE IF s \notin ITrans(L.inst[j]) THEN [L EXCEPT !.err = TRUE]          \* InvalidTransition raised
  ELSE LET L1 == [L EXCEPT !.inst[j] = s,
                           !.ipubs = Append(@, <<L.i, j, s>>),
                           !.sm[j] = IF s \in {"STOPPED", "ISOLATED"} /\ j # L.i THEN FreshSM ELSE @,
                           !.stale = IF s = "CHECKING" THEN @ \cup {j} ELSE @]
       IN IF s # "RUNNING" /\ j = L1.master
          THEN Publish([L1 EXCEPT !.master = NoMaster])
          ELSE [L1 EXCEPT !.mark = TRUE]

Req(L, j, kind) == [L EXCEPT !.out = Append(@, <<"REQ", j, kind, L.inst[j] = "ISOLATED">>)]

-----------------------------------------------------------------------------
(* statemodes.py evaluations *)

RunningSet(L) == {j \in Inst : L.inst[j] = "RUNNING"}
\* StateModes.get_stable_running_identifiers
StableOf(s) == IF s.ist = <<>> THEN {}
               ELSE IF \E k \in Inst : s.ist[k] \notin StableS THEN {}
               ELSE {k \in Inst : s.ist[k] = "RUNNING"}
\* evaluate_stability
Stable(L) == LET R == RunningSet(L)
                 S == {StableOf(SMof(L, j)) : j \in R}
             IN IF R # {} /\ Cardinality(S) = 1 THEN CHOOSE x \in S : TRUE ELSE {}
Masters(L) == {SMof(L, j).master : j \in RunningSet(L)}               \* get_master_identifiers
CheckMaster(L) == NoMaster \notin Masters(L) /\ Cardinality(Masters(L)) <= 1
Min(S) == CHOOSE x \in S : \A y \in S : x <= y
\* select_master (ValueError on an empty candidate list)
SelectMaster(L) ==
  LET c0 == Masters(L) \ {NoMaster}
      c1 == IF c0 = {} THEN RunningSet(L) ELSE c0
      c2 == IF Core \cap c1 # {} THEN Core \cap c1 ELSE c1
  IN IF c2 = {} THEN [L EXCEPT !.err = TRUE] ELSE SetMaster(L, Min(c2))
\* accept_master (any declared Master; the set iteration order of the code is not specified: lowest here)
AcceptMaster(L) == LET c0 == Masters(L) \ {NoMaster}
                   IN IF c0 = {} THEN L ELSE SetMaster(L, Min(c0))
MasterState(L) == IF L.master = NoMaster THEN "NONE" ELSE SMof(L, L.master).fsm
IsMaster(L) == L.master = L.i
AllRunning(L) == Cardinality(Stable(L)) = N
InitialRunning(L) == Inst \subseteq Stable(L)
CoreRunning(L) == Core # {} /\ Core \subseteq Stable(L)

-----------------------------------------------------------------------------
(* context.py *)

\* Context.invalidate (fence = FALSE: from invalidate_failed)
Invalidate(L, j, fence) ==
  IF j = L.i THEN SetInst(L, j, "STOPPED")
  ELSE IF fence \/ (AutoFence /\ MasterState(L) \in Working) THEN SetInst(L, j, "ISOLATED")
  ELSE SetInst(L, j, "STOPPED")

RECURSIVE InvalidateFailed(_, _)
InvalidateFailed(L, j) ==
  IF j > N THEN L
  ELSE IF L.inst[j] = "FAILED"
       THEN InvalidateFailed([Invalidate(L, j, FALSE) EXCEPT !.lost = @ \cup {j}], j + 1)
       ELSE InvalidateFailed(L, j + 1)

RECURSIVE ActivateChecked(_, _)
ActivateChecked(L, j) ==
  IF j > N THEN L
  ELSE IF L.inst[j] = "CHECKED" THEN ActivateChecked(SetInst(L, j, "RUNNING"), j + 1)
       ELSE ActivateChecked(L, j + 1)

RECURSIVE TimerCheck(_, _, _)
\* Context.on_timer_event
TimerCheck(L, j, seq) ==
  IF j > N THEN L
  ELSE IF Active(L.inst[j]) /\ seq > L.seen[j] + T
       THEN TimerCheck(SetInst(L, j, "FAILED"), j + 1, seq)
       ELSE TimerCheck(L, j + 1, seq)

-----------------------------------------------------------------------------
(* statemachine.py: each state's next(); returns <<L', proposal>> with proposal "NONE" when None *)

HasChecked(L) == \E j \in Inst : L.inst[j] = "CHECKED"

\* _check_instances for the three variants of _activate_instances
CheckInstances(L) ==
  LET L1 == InvalidateFailed([L EXCEPT !.lost = {}], 1)
  IN IF L.fsm = "DISTRIBUTION" THEN <<L1, "NONE">>
     ELSE IF L.fsm \in {"OPERATION", "CONCILIATION"}
          THEN (IF HasChecked(L1) THEN <<ActivateChecked(L1, 1), "ELECTION">> ELSE <<L1, "NONE">>)
          ELSE <<ActivateChecked(L1, 1), "NONE">>

Tri(opt, ok) == IF opt \in Sync THEN (IF ok THEN "F" ELSE "T") ELSE "N"     \* "T": failure, "F": no, "N": None

\* _SynchronizedState._check_failure_strategy
FailureStrategy(L) ==
  LET user == IF "USER" \in Sync THEN (IF L.lost # {} THEN "T" ELSE "F") ELSE "N"
      corf == Tri("CORE", CoreRunning(L))
      strf == Tri("STRICT", InitialRunning(L))
      lstf == Tri("LIST", AllRunning(L))
      L1 == SetDeg(L, "T" \in {strf, lstf, corf})
      first == IF user # "N" THEN user ELSE IF corf # "N" THEN corf ELSE IF strf # "N" THEN strf
               ELSE IF lstf # "N" THEN lstf ELSE "F"
  IN IF first = "T" /\ FailStrat = "RESYNC" THEN <<L1, "SYNCHRONIZATION">>
     ELSE IF first = "T" /\ FailStrat = "SHUTDOWN" THEN <<L1, "SHUTTING_DOWN">>
     ELSE <<L1, "NONE">>

LocalRunning(L) == L.inst[L.i] = "RUNNING"

\* _check_consistence of _SynchronizedState
SyncConsistence(L) == IF ~LocalRunning(L) THEN <<L, "OFF">> ELSE FailureStrategy(L)

\* _check_consistence of _MasterSlaveState
MSConsistence(L) == LET r == SyncConsistence(L)
                    IN IF r[2] # "NONE" THEN r
                       ELSE IF ~CheckMaster(r[1]) THEN <<r[1], "ELECTION">> ELSE r

StateNext(L) ==
  LET ci == CheckInstances(L)
      L1 == ci[1]
  IN IF L1.err THEN <<L1, "NONE">>
     ELSE IF ci[2] # "NONE" THEN ci
     ELSE
     CASE L.fsm = "OFF" -> IF LocalRunning(L1) THEN <<L1, "SYNCHRONIZATION">> ELSE <<L1, "OFF">>
       [] L.fsm = "SYNCHRONIZATION" ->
            IF ~LocalRunning(L1) THEN <<L1, "OFF">>
            ELSE LET up == L1.tick
                     strict == IF "STRICT" \in Sync THEN InitialRunning(L1) ELSE FALSE
                     list == IF "LIST" \in Sync THEN AllRunning(L1) ELSE FALSE
                     tmo == "TIMEOUT" \in Sync /\ up >= SyncTicks
                     corok == "CORE" \in Sync /\ CoreRunning(L1)
                     cor == corok /\ up >= 3
                     L2 == IF "USER" \in Sync THEN AcceptMaster(L1) ELSE L1
                     usr == "USER" \in Sync /\ L2.master # NoMaster /\ L2.inst[L2.master] = "RUNNING"
                     \* degraded: any of strict / list / core evaluated False (not None)
                     dg == \/ "STRICT" \in Sync /\ ~InitialRunning(L1)
                           \/ "LIST" \in Sync /\ ~AllRunning(L1)
                           \/ "CORE" \in Sync /\ (~CoreRunning(L1) \/ ~(up >= 3))
                     L3 == SetDeg(L2, dg)
                 IN IF strict \/ list \/ tmo \/ cor \/ usr THEN <<L3, "ELECTION">> ELSE <<L3, "SYNCHRONIZATION">>
       [] L.fsm = "ELECTION" ->
            LET r == SyncConsistence(L1)
                L2 == r[1]
            IN IF r[2] # "NONE" THEN r
               ELSE IF Stable(L2) # {}
                    THEN IF CheckMaster(L2) /\ IsMaster(L2) THEN <<L2, "DISTRIBUTION">>
                         ELSE IF CheckMaster(L2) /\ MasterState(L2) = "DISTRIBUTION" THEN <<L2, "DISTRIBUTION">>
                         ELSE <<SelectMaster(L2), "ELECTION">>
                    ELSE <<L2, "ELECTION">>
       [] L.fsm \in {"DISTRIBUTION", "OPERATION", "CONCILIATION"} ->
            LET r == MSConsistence(L1)
                L2 == r[1]
            IN IF r[2] # "NONE" THEN r
               ELSE IF IsMaster(L2)
                    THEN (IF L.fsm = "DISTRIBUTION" THEN <<L2, IF L2.hold THEN "DISTRIBUTION" ELSE "OPERATION">>
                          ELSE IF L.fsm = "OPERATION" THEN <<L2, IF conflict THEN "CONCILIATION" ELSE "OPERATION">>
                          ELSE <<L2, IF conflict THEN "CONCILIATION" ELSE "OPERATION">>)
                    ELSE <<L2, MasterState(L2)>>
       [] L.fsm \in {"RESTARTING", "SHUTTING_DOWN"} ->
            LET r == MSConsistence(L1)
                L2 == r[1]
            IN IF r[2] # "NONE" THEN <<L2, "FINAL">>
               ELSE IF IsMaster(L2) THEN <<L2, "FINAL">>          \* Stopper never in progress in this model
                    ELSE IF MasterState(L2) = L.fsm THEN <<L2, L.fsm>> ELSE <<L2, "FINAL">>
       [] L.fsm = "FINAL" -> <<L1, "NONE">>

\* exit actions
ExitState(L) == CASE L.fsm = "RESTARTING" -> [Req(L, L.i, "RESTART") EXCEPT !.stop = "RESTART"]
                  [] L.fsm = "SHUTTING_DOWN" -> [Req(L, L.i, "SHUTDOWN") EXCEPT !.stop = "SHUTDOWN"]
                  [] OTHER -> L

\* FiniteStateMachine.set_state loop (at most 6 iterations: the graph has no longer chain)
RECURSIVE SetState(_, _, _)
SetState(L, prop, fuel) ==
  IF L.err \/ prop = "NONE" \/ prop = L.fsm THEN [L EXCEPT !.refused = 0]
  ELSE IF prop \notin FTrans(L.fsm) THEN [L EXCEPT !.refused = IF @ < 3 THEN @ + 1 ELSE @]   \* critical log
  ELSE IF fuel = 0 THEN [L EXCEPT !.err = TRUE]
  ELSE LET L1 == Publish([ExitState(L) EXCEPT !.fsm = prop, !.hold = (prop = "DISTRIBUTION" /\ L.master = L.i /\ HoldDist)])
           r == StateNext(L1)
       IN SetState(r[1], r[2], fuel - 1)

\* FiniteStateMachine.next
FsmRun(L) == IF L.err THEN L ELSE LET r == StateNext(L) IN SetState(r[1], r[2], 8)

-----------------------------------------------------------------------------
(* Applying a local evaluation to the global state *)

\* items of proxy FIFOs
Item(kind, from, arg) == [kind |-> kind, from |-> from, arg |-> arg, fresh |-> TRUE]

RECURSIVE ApplyOut(_, _, _)
\* qq: the FIFOs of instance i ([Inst -> Seq]); out: ordered sends
ApplyOut(qq, i, out) ==
  IF out = <<>> THEN qq
  ELSE LET o == Head(out)
           \* proxy_server.get_proxy: the proxy of an ISOLATED instance is stopped and its pending items are lost
           q1 == CASE o[1] = "PUB" -> [j \in Inst |-> IF j \in o[3] THEN Append(qq[j], Item(o[2].k, i, o[2]))
                                                       ELSE IF j # i THEN <<>> ELSE qq[j]]
                   [] o[1] = "REQ" -> IF o[4] THEN [qq EXCEPT ![o[2]] = <<>>]
                                      ELSE [qq EXCEPT ![o[2]] = Append(@, Item(o[3], i, o[2]))]
                   [] o[1] = "NOT" -> [qq EXCEPT ![i] = Append(@, Item(o[3], o[2], o[4]))]
       IN ApplyOut(q1, i, Tail(out))

\* handshake notifications about a peer in `stale` become stale (they carry a timestamp older than checking_time)
Staled(s, stale) == [k \in DOMAIN s |-> IF s[k].kind \in {"IDENT", "AUTH", "ALLINFO"} /\ s[k].from \in stale
                                        THEN [s[k] EXCEPT !.fresh = FALSE] ELSE s[k]]

\* commit L (instance i) and extra queue update qbase (the FIFOs after removal of the consumed item)
Commit(L, qbase) ==
  LET i == L.i
      qi == ApplyOut([qbase[i] EXCEPT ![i] = Staled(@, L.stale)], i, L.out)
  IN /\ fsm' = [fsm EXCEPT ![i] = L.fsm]
     /\ master' = [master EXCEPT ![i] = L.master]
     /\ inst' = [inst EXCEPT ![i] = L.inst]
     /\ seen' = [seen EXCEPT ![i] = L.seen]
     /\ rem' = [rem EXCEPT ![i] = L.rem]
     /\ sm' = [sm EXCEPT ![i] = L.sm]
     /\ mark' = [mark EXCEPT ![i] = L.mark]
     /\ deg' = [deg EXCEPT ![i] = L.deg]
     /\ hold' = [hold EXCEPT ![i] = L.hold]
     /\ err' = [err EXCEPT ![i] = @ \/ L.err]
     /\ refused' = [refused EXCEPT ![i] = L.refused]
     /\ q' = [qbase EXCEPT ![i] = qi]
     /\ pubs' = L.pubs
     /\ ipubs' = L.ipubs

Reach(i, j) == alive[j] /\ (i = j \/ <<i, j>> \notin cut)

-----------------------------------------------------------------------------
(* Scheduling discipline: a FIFO not in SlowQ is eager - while some eager FIFO is non-empty, only the          *)
(* lowest eager FIFO may be served and no tick / fault / user action happens.                                  *)
Slow(i, j) == (10 * i + j) \in SlowQ
EagerPending == {p \in Inst \X Inst : alive[p[1]] /\ q[p[1]][p[2]] # <<>> /\ ~Slow(p[1], p[2])}
Lowest(S) == CHOOSE p \in S : \A r \in S : p[1] < r[1] \/ (p[1] = r[1] /\ p[2] <= r[2])
MayServe(i, j) == alive[i] /\ q[i][j] # <<>> /\
                  (IF Slow(i, j) THEN EagerPending = {} ELSE <<i, j>> = Lowest(EagerPending))
Quiet == EagerPending = {}


-----------------------------------------------------------------------------
(* Actions *)

\* SupervisorListener.on_tick
LocalTick(i) ==
  /\ alive[i] /\ Quiet
  /\ i \notin ticked
  /\ LET seq == tick[i]
         L0 == [Local(i) EXCEPT !.tick = seq + 1, !.seen[i] = seq, !.rem[i] = seq]
         \* on_local_tick_event
         L1 == IF L0.inst[i] = "STOPPED" THEN Req(SetInst(L0, i, "CHECKING"), i, "CHECK") ELSE L0
         \* fsm.on_timer_event: context.on_timer_event, deferred_publish_status, next
         L2 == TimerCheck(L1, 1, seq)
         L3 == IF L2.mark THEN [Publish(L2) EXCEPT !.mark = FALSE] ELSE L2
         L4 == FsmRun(L3)
         \* rpc_handler.send_tick_event (not reached when an exception was raised: listener guard)
         L5 == IF L4.err THEN L4
               ELSE [L4 EXCEPT !.out = Append(@, <<"PUB", [k |-> "TICK", seq |-> seq], Targets(L4)>>)]
     IN /\ Commit(L5, q)
        /\ tick' = [tick EXCEPT ![i] = seq + 1]
  /\ LET t1 == ticked \cup {i}
     IN IF {j \in Inst : alive[j]} \subseteq t1
        THEN ticked' = {} /\ round' = round + 1
        ELSE ticked' = t1 /\ round' = round
  /\ UNCHANGED <<alive, cut, budget, conflict>>
  /\ act' = <<"Tick", i>>

\* listener.read_publication at j for an item published by i (is_valid: known and not ISOLATED)
OnPublication(j, i, it) ==
  LET L == Local(j)
  IN IF L.inst[i] = "ISOLATED" THEN L
     ELSE IF it.kind = "TICK"
     THEN \* Context.on_tick_event
          IF L.inst[j] \notin {"CHECKED", "RUNNING"} THEN L
          ELSE LET sq == it.arg.seq
                   L1 == [L EXCEPT !.seen[i] = IF sq < L.rem[i] THEN 0 ELSE L.rem[j], !.rem[i] = sq]
               IN IF L1.inst[i] = "STOPPED" THEN Req(SetInst(L1, i, "CHECKING"), i, "CHECK") ELSE L1
     ELSE \* STATE: FiniteStateMachine.on_state_event
          LET L1 == [L EXCEPT !.sm[i] = it.arg.sm]
          IN IF i = L1.master THEN FsmRun(L1) ELSE L1

\* SupervisorProxyThread.handle_exception
Failure(L, j) == IF j # L.i /\ Active(L.inst[j])
                 THEN [L EXCEPT !.out = Append(@, <<"NOT", j, "FAILURE", 0>>)] ELSE L

\* One queued item of the proxy i -> j (j # i)
ProxyRemote(i, j) ==
  /\ i # j /\ MayServe(i, j)
  /\ LET it == Head(q[i][j])
         qb == [q EXCEPT ![i][j] = Tail(@)]
     IN CASE it.kind \in {"TICK", "STATE"} ->
               IF it.kind = "TICK" \/ Active(inst[i][j])
               THEN IF Reach(i, j)
                    THEN /\ Commit(OnPublication(j, i, it), qb)
                         /\ act' = <<"Deliver", i, j, it.kind>>
                    ELSE /\ Commit(Failure(Local(i), j), qb)
                         /\ act' = <<"SendFail", i, j, it.kind>>
               ELSE /\ Commit(Local(i), qb)                      \* filtered: consumed, nothing sent
                    /\ act' = <<"Filtered", i, j, it.kind>>
          [] it.kind = "CHECK" ->
               \* SupervisorProxy.check_instance (coarse: the RPCs of one handshake are one step)
               IF ~Reach(i, j)
               THEN /\ Commit(Failure(Local(i), j), qb) /\ act' = <<"CheckFail", i, j>>
               ELSE LET auth == IF inst[j][i] = "ISOLATED" THEN "NOT_AUTHORIZED"
                                ELSE IF (i \in Mismatch) # (j \in Mismatch) THEN "INCONSISTENT"
                                ELSE "AUTHORIZED"
                        L == Local(i)
                        o1 == <<<<"NOT", j, "IDENT", 0>>>>
                        o2 == IF auth = "AUTHORIZED"
                              THEN <<<<"NOT", j, "STATE", [sm |-> [fsm |-> fsm[j], master |-> master[j],
                                                                  ist |-> inst[j]]]>>,
                                     <<"NOT", j, "ALLINFO", 0>>>>
                              ELSE <<>>
                        o3 == <<<<"NOT", j, "AUTH", auth>>>>
                    IN /\ Commit([L EXCEPT !.out = o1 \o o2 \o o3], qb)
                       /\ act' = <<"Check", i, j, auth>>
          [] it.kind \in {"RESTART_ALL", "SHUTDOWN_ALL"} ->
               \* supvisors.restart / shutdown on the Master (rpcinterface gate + fsm.on_restart / on_shutdown)
               IF ~Reach(i, j)
               THEN /\ Commit(Failure(Local(i), j), qb) /\ act' = <<"ReqFail", i, j>>
               ELSE LET Lj == Local(j)
                        tgt == IF it.kind = "RESTART_ALL" THEN "RESTARTING" ELSE "SHUTTING_DOWN"
                        served == Lj.fsm \in {"DISTRIBUTION", "OPERATION", "CONCILIATION", "RESTARTING",
                                              "SHUTTING_DOWN"}
                        L1 == IF ~served THEN Lj
                              ELSE IF IsMaster(Lj) THEN SetState(Lj, tgt, 8)
                              ELSE IF Lj.master # NoMaster THEN Req(Lj, Lj.master, it.kind)
                              ELSE Lj        \* RuntimeError / ValueError out of the XML-RPC: a fault for the caller
                    IN /\ Commit(L1, qb) /\ act' = <<"ReqAll", i, j, it.kind>>
  /\ UNCHANGED <<alive, tick, cut, budget, ticked, round, conflict>>

\* One queued item of the local proxy of i: a notification forwarded to the local listener, or a request
ProxyLocal(i) ==
  /\ MayServe(i, i)
  /\ LET it == Head(q[i][i])
         qb == [q EXCEPT ![i][i] = Tail(@)]
         L == Local(i)
         j == it.from
     IN CASE it.kind = "CHECK" ->
               \* handshake with itself
               /\ Commit([L EXCEPT !.out = <<<<"NOT", i, "IDENT", 0>>,
                                             <<"NOT", i, "STATE", [sm |-> LocalSM(L)]>>,
                                             <<"NOT", i, "ALLINFO", 0>>,
                                             <<"NOT", i, "AUTH", "AUTHORIZED">>>>], qb)
               /\ act' = <<"Check", i, i, "AUTHORIZED">>
               /\ UNCHANGED alive
          [] it.kind = "IDENT" -> /\ Commit(L, qb) /\ act' = <<"Notify", i, j, "IDENT">> /\ UNCHANGED alive
          [] it.kind = "AUTH" ->
               \* Context.on_authorization
               /\ Commit(IF L.inst[j] = "ISOLATED" \/ L.inst[j] # "CHECKING" \/ ~it.fresh THEN L
                         ELSE IF it.arg = "AUTHORIZED" THEN SetInst(L, j, "CHECKED")
                         ELSE IF it.arg = "UNKNOWN" THEN SetInst(L, j, "STOPPED")
                         ELSE Invalidate(L, j, TRUE), qb)
               /\ act' = <<"Notify", i, j, "AUTH">> /\ UNCHANGED alive
          [] it.kind = "STATE" ->
               /\ Commit(IF L.inst[j] = "ISOLATED" THEN L
                         ELSE LET L1 == IF j = i THEN L ELSE [L EXCEPT !.sm[j] = it.arg.sm]
                              IN IF j = L1.master THEN FsmRun(L1) ELSE L1, qb)
               /\ act' = <<"Notify", i, j, "STATE">> /\ UNCHANGED alive
          [] it.kind = "ALLINFO" -> /\ Commit(L, qb) /\ act' = <<"Notify", i, j, "ALLINFO">> /\ UNCHANGED alive
          [] it.kind = "FAILURE" ->
               \* Context.on_instance_failure
               /\ Commit(IF L.inst[j] = "ISOLATED" \/ (FixF5 /\ ~Active(L.inst[j])) THEN L
                         ELSE SetInst(L, j, "FAILED"), qb)
               /\ act' = <<"Notify", i, j, "FAILURE">> /\ UNCHANGED alive
          [] it.kind \in {"RESTART", "SHUTDOWN"} ->
               \* supervisor.restart / shutdown of the own Supervisor: the instance stops
               /\ Commit(L, [qb EXCEPT ![i] = [k \in Inst |-> <<>>]])
               /\ alive' = [alive EXCEPT ![i] = FALSE]
               /\ act' = <<"Stop", i, it.kind>>
  /\ UNCHANGED <<tick, cut, budget, ticked, round, conflict>>

\* user XML-RPC supvisors.restart / shutdown on instance i
UserEnd(i, kind) ==
  /\ alive[i] /\ Quiet /\ budget.user > 0
  /\ fsm[i] \in {"DISTRIBUTION", "OPERATION", "CONCILIATION", "RESTARTING", "SHUTTING_DOWN"}
  /\ LET L == Local(i)
         tgt == IF kind = "RESTART_ALL" THEN "RESTARTING" ELSE "SHUTTING_DOWN"
         L1 == IF IsMaster(L) THEN SetState(L, tgt, 8)
               ELSE IF L.master # NoMaster THEN Req(L, L.master, kind)
               ELSE L
     IN Commit(L1, q)
  /\ budget' = [budget EXCEPT !.user = @ - 1]
  /\ act' = <<"User", i, kind>>
  /\ UNCHANGED <<alive, tick, cut, ticked, round, conflict>>

\* user XML-RPC supvisors.end_sync(master) on instance i (m = 0: no argument)
EndSync(i, m) ==
  /\ alive[i] /\ Quiet /\ budget.user > 0 /\ "USER" \in Sync
  /\ fsm[i] = "SYNCHRONIZATION" /\ master[i] = NoMaster
  /\ IF m = NoMaster THEN TRUE ELSE inst[i][m] = "RUNNING"
  /\ LET L == Local(i)
         L1 == IF m # NoMaster THEN SetMaster(L, m) ELSE SelectMaster(L)
     IN Commit(FsmRun(L1), q)
  /\ budget' = [budget EXCEPT !.user = @ - 1]
  /\ act' = <<"EndSync", i, m>>
  /\ UNCHANGED <<alive, tick, cut, ticked, round, conflict>>

\* environment: the Starter of the Master finishes
Release(i) ==
  /\ alive[i] /\ Quiet /\ hold[i]
  /\ hold' = [hold EXCEPT ![i] = FALSE]
  /\ act' = <<"Release", i>>
  /\ pubs' = <<>> /\ ipubs' = <<>>
  /\ UNCHANGED <<alive, tick, fsm, master, inst, seen, rem, sm, mark, deg, q, cut, budget, err, refused, ticked, round,
                 conflict>>

Crash(i) ==
  /\ alive[i] /\ Quiet /\ budget.crash > 0
  /\ alive' = [alive EXCEPT ![i] = FALSE]
  /\ q' = [q EXCEPT ![i] = [k \in Inst |-> <<>>]]
  /\ budget' = [budget EXCEPT !.crash = @ - 1]
  /\ act' = <<"Crash", i>>
  /\ pubs' = <<>> /\ ipubs' = <<>>
  /\ UNCHANGED <<tick, fsm, master, inst, seen, rem, sm, mark, deg, hold, cut, err, refused, round, conflict>>
  /\ ticked' = ticked \ {i}

\* a new incarnation (new Supvisors object, SupervisorRunningEvent: fsm.next() in OFF)
Boot(i) ==
  /\ ~alive[i] /\ Quiet /\ budget.restart > 0
  /\ alive' = [alive EXCEPT ![i] = TRUE]
  /\ tick' = [tick EXCEPT ![i] = 0]
  /\ fsm' = [fsm EXCEPT ![i] = "OFF"]
  /\ master' = [master EXCEPT ![i] = NoMaster]
  /\ inst' = [inst EXCEPT ![i] = [j \in Inst |-> "STOPPED"]]
  /\ seen' = [seen EXCEPT ![i] = [j \in Inst |-> 0]]
  /\ rem' = [rem EXCEPT ![i] = [j \in Inst |-> 0]]
  /\ sm' = [sm EXCEPT ![i] = [j \in Inst |-> FreshSM]]
  /\ mark' = [mark EXCEPT ![i] = FALSE]
  /\ deg' = [deg EXCEPT ![i] = FALSE]
  /\ hold' = [hold EXCEPT ![i] = FALSE]
  /\ q' = [q EXCEPT ![i] = [k \in Inst |-> <<>>]]
  /\ err' = [err EXCEPT ![i] = FALSE]
  /\ refused' = [refused EXCEPT ![i] = 0]
  /\ budget' = [budget EXCEPT !.restart = @ - 1]
  /\ act' = <<"Boot", i>>
  /\ pubs' = <<>> /\ ipubs' = <<>>
  /\ UNCHANGED <<cut, ticked, round, conflict>>

Cut(i, j) ==
  /\ i # j /\ Quiet /\ budget.cut > 0 /\ <<i, j>> \notin cut
  /\ cut' = cut \cup {<<i, j>>}
  /\ budget' = [budget EXCEPT !.cut = @ - 1]
  /\ act' = <<"Cut", i, j>>
  /\ pubs' = <<>> /\ ipubs' = <<>>
  /\ UNCHANGED <<alive, tick, fsm, master, inst, seen, rem, sm, mark, deg, hold, q, err, refused, ticked, round, conflict>>

Heal(i, j) ==
  /\ i # j /\ Quiet /\ <<i, j>> \in cut
  /\ cut' = cut \ {<<i, j>>}
  /\ act' = <<"Heal", i, j>>
  /\ pubs' = <<>> /\ ipubs' = <<>>
  /\ UNCHANGED <<alive, tick, fsm, master, inst, seen, rem, sm, mark, deg, hold, q, budget, err, refused, ticked, round,
                 conflict>>

\* environment: a conflict appears / disappears (duplicate process started or stopped behind Supvisors' back)
Conflict(b) ==
  /\ Quiet /\ conflict # b /\ budget.conflict > 0
  /\ conflict' = b
  /\ budget' = [budget EXCEPT !.conflict = @ - 1]
  /\ act' = <<"Conflict", b>>
  /\ pubs' = <<>> /\ ipubs' = <<>>
  /\ UNCHANGED <<alive, tick, fsm, master, inst, seen, rem, sm, mark, deg, hold, q, cut, err, refused, ticked, round>>

Next == \/ \E b \in BOOLEAN : Conflict(b)
        \/ \E i \in Inst : LocalTick(i) \/ ProxyLocal(i) \/ Crash(i) \/ Boot(i) \/ Release(i)
        \/ \E i, j \in Inst : ProxyRemote(i, j) \/ Cut(i, j) \/ Heal(i, j)
        \/ \E i \in Inst, k \in {"RESTART_ALL", "SHUTDOWN_ALL"} : UserEnd(i, k)
        \/ \E i \in Inst, m \in 0..N : EndSync(i, m)

-----------------------------------------------------------------------------
(* Initial states *)

ColdInit ==
  /\ alive = [i \in Inst |-> TRUE]
  /\ tick = [i \in Inst |-> 0]
  /\ fsm = [i \in Inst |-> "OFF"]
  /\ master = [i \in Inst |-> NoMaster]
  /\ inst = [i \in Inst |-> [j \in Inst |-> "STOPPED"]]
  /\ seen = [i \in Inst |-> [j \in Inst |-> 0]]
  /\ rem = [i \in Inst |-> [j \in Inst |-> 0]]
  /\ sm = [i \in Inst |-> [j \in Inst |-> FreshSM]]
  /\ mark = [i \in Inst |-> FALSE]
  /\ deg = [i \in Inst |-> FALSE]
  /\ hold = [i \in Inst |-> FALSE]
  /\ q = [i \in Inst |-> [j \in Inst |-> <<>>]]
  /\ cut = {}
  /\ ticked = {} /\ round = 0 /\ conflict = FALSE
  /\ inc = [i \in Inst |-> 1]
  /\ err = [i \in Inst |-> FALSE]
  /\ refused = [i \in Inst |-> 0]

Init == /\ ColdInit
        /\ budget = [crash |-> MaxCrash, restart |-> MaxRestart, cut |-> MaxCut, user |-> MaxUser,
                     conflict |-> MaxConflict]
        /\ pubs = <<>> /\ ipubs = <<>> /\ act = <<"Init">> /\ hist = <<>>
        /\ g = P!GhostInit /\ calm = 0 /\ dirty = FALSE /\ ended = FALSE

-----------------------------------------------------------------------------
(* Observable step record of the last action, in the vocabulary of ClusterProps *)
Obs(al, ic, fs, ms, is, tk, rm) ==
  [i \in Inst |-> [alive |-> al[i], inc |-> ic[i], fsm |-> IF al[i] THEN fs[i] ELSE "DEAD",
                   master |-> IF al[i] THEN ms[i] ELSE 0, tick |-> IF al[i] THEN tk[i] ELSE 0,
                   inst |-> IF al[i] THEN is[i] ELSE [j \in Inst |-> "STOPPED"],
                   rem |-> IF al[i] THEN rm[i] ELSE [j \in Inst |-> 0]]]

LocalVars(i) == <<fsm[i], master[i], inst[i], seen[i], rem[i], sm[i], mark[i], deg[i], q[i]>>
LocalVarsP(i) == <<fsm'[i], master'[i], inst'[i], seen'[i], rem'[i], sm'[i], mark'[i], deg'[i], q'[i]>>

Rec ==
  LET a == act'
      kind == a[1]
      isProxy == kind \in {"Deliver", "SendFail", "Filtered", "Check", "CheckFail", "ReqFail", "ReqAll", "Notify",
                           "Stop"}
  IN [a |-> IF kind = "Tick" THEN "Tick" ELSE IF isProxy THEN "Proxy"
            ELSE IF kind \in {"Boot", "Crash", "Cut", "Heal"} THEN kind
            ELSE IF kind \in {"User", "EndSync"} THEN "Rpc" ELSE "Env",
      n |-> IF kind = "Conflict" THEN 0 ELSE a[2],
      d |-> IF kind \in {"Deliver", "SendFail", "Filtered", "Check", "CheckFail", "ReqFail", "ReqAll", "Cut", "Heal",
                         "EndSync"} THEN a[3]
            ELSE IF kind = "Notify" THEN a[3] ELSE IF kind = "Stop" THEN a[2] ELSE 0,
      k |-> IF kind = "Deliver" THEN a[4] ELSE IF kind = "EndSync" THEN "end_sync"
            ELSE IF kind = "Notify" THEN "NOTIF_" \o a[4] ELSE kind,
      pre |-> Obs(alive, inc, fsm, master, inst, tick, rem),
      post |-> Obs(alive', inc', fsm', master', inst', tick', rem'),
      pubs |-> pubs', ipubs |-> ipubs', push |-> <<>>,
      \* INSTANCE_FAILURE notifications queued by the step (handle_exception)
      nfail |-> IF kind \in {"SendFail", "CheckFail", "ReqFail"} /\ Active(inst[a[2]][a[3]])
                THEN <<<<a[2], a[3]>>>> ELSE <<>>,
      fails |-> IF kind \in {"SendFail", "CheckFail", "ReqFail"} THEN {<<a[2], a[3]>>} ELSE {},
      err |-> \E i \in Inst : err'[i] /\ ~err[i],
      iso |-> kind = "Deliver" /\ inst[a[3]][a[2]] = "ISOLATED",
      snapchg |-> kind = "Deliver" /\ LocalVarsP(a[3]) # LocalVars(a[3]),
      user |-> FALSE, nonadm |-> FALSE, procchg |-> FALSE, hang |-> FALSE]

QueuesEmpty(qq, al) == \A i, j \in Inst : al[i] => qq[i][j] = <<>>
Disturbing == act'[1] \in {"Crash", "Boot", "Cut", "Heal", "User", "EndSync", "Conflict", "Release"}
CalmCap == 12

GhostNext ==
  /\ inc' = IF act'[1] = "Boot" THEN [inc EXCEPT ![act'[2]] = @ + 1] ELSE inc
  /\ g' = P!GhostStep(g, Rec)
  /\ ended' = (ended \/ act'[1] = "User")
  \* the previous round is judged when a new round starts (first tick of the round): it was calm when no
  \* disturbance happened in it and every FIFO had been drained
  /\ IF act'[1] = "Tick" /\ ticked = {}
     THEN /\ calm' = IF ~dirty /\ QueuesEmpty(q, alive) /\ cut = {}
                     THEN (IF calm < CalmCap THEN calm + 1 ELSE calm) ELSE 0
          /\ dirty' = FALSE
     ELSE /\ calm' = IF Disturbing THEN 0 ELSE calm
          /\ dirty' = (dirty \/ Disturbing)

Spec == Init /\ [][Next /\ GhostNext /\ UNCHANGED hist]_vars

\* E1 properties -------------------------------------------------------------------------------------------
KnownLabels == {"KNOWN.F10", "KNOWN.F2", "KNOWN.F1"}
\* safety: every step satisfies the step formulas of ClusterProps, one action property per listed property
LabelsC01 == {"C01.ElectionRule", "C01.MasterOnlyAuto"}
LabelsC02 == {"C02.OnGraph", "C02.NeedsMaster", "C02.SlaveAfterMaster"}
LabelsC07 == {"C07.InstanceGraph", "C07.LocalIsolated", "C07.Accuracy", "C07.Fence", "C07.Completeness",
              "C07.ViewConsistent"}
LabelsC13 == {"C13.Airtight", "C13.NoTraffic", "C13.Reciprocal", "C13.OnlyAdmitted"}
LabelsC16 == {"C16.NoInternalError"}
StepsC01 == [][P!StepFailures(g, Rec) \cap LabelsC01 = {}]_vars
StepsC02 == [][P!StepFailures(g, Rec) \cap LabelsC02 = {}]_vars
StepsC07 == [][P!StepFailures(g, Rec) \cap LabelsC07 = {}]_vars
StepsC13 == [][P!StepFailures(g, Rec) \cap LabelsC13 = {}]_vars
StepsC16 == [][P!StepFailures(g, Rec) \cap LabelsC16 = {}]_vars
StepsOK == [][P!StepFailures(g, Rec) \subseteq KnownLabels]_vars
\* C01 / C08: once the cluster has been calm for K rounds the terminal classification admits no failure
CONSTANT K
TerminalNow == P!TerminalFailures(Obs(alive, inc, fsm, master, inst, tick, rem), ended)
\* (a start job kept in progress by the environment is not a settled cluster: nothing is demanded meanwhile)
Held == \E i \in Inst : alive[i] /\ hold[i]
Terminal == (calm >= K /\ ~Held) => TerminalNow \subseteq KnownLabels
TerminalC01 == (calm >= K /\ ~Held) => "C01.Convergence" \notin TerminalNow
TerminalC08 == (calm >= K /\ ~Held) => "C08.Progress" \notin TerminalNow
\* C08: a decision refused by the transition table is not refused for ever (outside the known classes)
NoRefusedForever == \A i \in Inst : (alive[i] /\ refused[i] >= 3) => P!Known_F1(Obs(alive, inc, fsm, master, inst, tick, rem))
\* C16 in the model: no partial operation applied outside its domain
NoErr == \A i \in Inst : ~err[i]
\* vacuity witnesses (expected to be VIOLATED when listed as invariants: they show the antecedents are reachable)
WitnessCalm == calm < K
WitnessOperation == ~(\E i \in Inst : alive[i] /\ fsm[i] = "OPERATION")

\* projection compared with the real code after each replayed action (conformance)
Proj == [i \in Inst |-> [alive |-> alive[i], fsm |-> fsm[i], master |-> master[i], inst |-> inst[i],
                         tick |-> tick[i], seen |-> seen[i], mark |-> mark[i],
                         sm |-> [j \in Inst |-> <<sm[i][j].fsm, sm[i][j].master>>],
                         ql |-> [j \in Inst |-> Len(q[i][j])], err |-> err[i]]]
SpecH == Init /\ [][Next /\ GhostNext /\ hist' = Append(hist, [a |-> act', p |-> Proj'])]_vars
\* printed by every candidate last step: the common prefix (deduplicated by the reader)
CONSTANT D
SimLog == Len(hist) # D \/ PrintT("B " \o ToJson(SubSeq(hist, 1, D - 1)))

Bound == round < MaxRound \/ (round = MaxRound /\ ticked = {})
=============================================================================
