----------------------------- MODULE ConcilDef -----------------------------
(* C05: what each conciliation strategy has to stop, as documented. Shared by the design model (Concil.tla) and    *)
(* by the monitor that judges recorded runs of the real code (ConcilMon.tla).                                      *)
EXTENDS Naturals, FiniteSets

Strategies == {"SENICIDE", "INFANTICIDE", "USER", "STOP", "RESTART", "RUNNING_FAILURE"}

Min(S) == CHOOSE x \in S : \A y \in S : x <= y
Max(S) == CHOOSE x \in S : \A y \in S : x >= y

\* copies: the instances where the process is running; started[i]: when the copy of instance i started
\* tol: starts closer than tol are not ordered (the documentation orders copies by uptime, refreshed once per tick)
Youngest(copies, started, tol) == {s \in copies : started[s] + tol >= Max({started[i] : i \in copies})}
Oldest(copies, started, tol) == {s \in copies : started[s] <= Min({started[i] : i \in copies}) + tol}

\* the admissible sets of instances asked to stop the process, for a conflict over `copies`
StopSets(strategy, copies, started, tol) ==
  CASE strategy = "SENICIDE" -> {copies \ {s} : s \in Youngest(copies, started, tol)}
    [] strategy = "INFANTICIDE" -> {copies \ {s} : s \in Oldest(copies, started, tol)}
    [] strategy = "USER" -> {{}}
    [] OTHER -> {copies}

\* how many copies are left once the conciliation is over (RUNNING_FAILURE: depends on the program's strategy)
CopiesLeft(strategy) ==
  CASE strategy \in {"SENICIDE", "INFANTICIDE", "RESTART"} -> {1}
    [] strategy = "STOP" -> {0}
    [] strategy = "RUNNING_FAILURE" -> {0, 1}
    [] OTHER -> Nat
=============================================================================
