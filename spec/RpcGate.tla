------------------------------ MODULE RpcGate ------------------------------
(* C17 - definition-level table of the XML-RPC gates, transcribed from the documentation (docstrings rendered by   *)
(* docs/xml_rpc.rst, dashboard.rst) and the property statement - NOT from the code. TLC enumerates every            *)
(* (method, Supvisors state, parameter class) and prints the set of outcomes the statement admits.                 *)
EXTENDS Naturals, Sequences, FiniteSets, TLC, Json

States == <<"OFF", "SYNCHRONIZATION", "ELECTION", "DISTRIBUTION", "OPERATION", "CONCILIATION", "RESTARTING",
            "SHUTTING_DOWN", "FINAL">>

\* gate classes
FromDist == {"DISTRIBUTION", "OPERATION", "CONCILIATION", "RESTARTING", "SHUTTING_DOWN"}
\* where the docstrings and dashboard.rst disagree (ending states), either answer is admitted
FromDistEither == {"RESTARTING", "SHUTTING_DOWN", "FINAL"}

\* method -> [gate, kind, params]; params: sequence of parameter kinds
\*   "strategy" starting strategy, "cstrategy" conciliation strategy, "app" application name,
\*   "mapp" application name that must be managed, "proc" namespec, "inst" instance identifier, "prog" program name,
\*   "other" (never invalid here)
M(gate, mutating, params) == [gate |-> gate, mutating |-> mutating, params |-> params]
Methods ==
  [get_api_version |-> M("ALWAYS", FALSE, <<>>),
   get_supvisors_state |-> M("ALWAYS", FALSE, <<>>),
   get_master_identifier |-> M("ALWAYS", FALSE, <<>>),
   get_strategies |-> M("ALWAYS", FALSE, <<>>),
   get_statistics_status |-> M("ALWAYS", FALSE, <<>>),
   get_all_instances_info |-> M("ALWAYS", FALSE, <<>>),
   get_instance_info |-> M("ALWAYS", FALSE, <<"inst">>),
   get_all_instances_state_modes |-> M("ALWAYS", FALSE, <<>>),
   get_instance_state_modes |-> M("ALWAYS", FALSE, <<"inst">>),
   get_network_info |-> M("ALWAYS", FALSE, <<"inst">>),
   get_all_local_process_info |-> M("ALWAYS", FALSE, <<>>),
   get_local_process_info |-> M("ALWAYS", FALSE, <<"lproc">>),
   get_all_inner_process_info |-> M("ALWAYS", FALSE, <<"inst">>),
   get_all_applications_info |-> M("DIST", FALSE, <<>>),
   get_application_info |-> M("DIST", FALSE, <<"app">>),
   get_application_rules |-> M("DIST", FALSE, <<"app">>),
   get_all_process_info |-> M("DIST", FALSE, <<>>),
   get_process_info |-> M("DIST", FALSE, <<"proc">>),
   get_process_rules |-> M("DIST", FALSE, <<"proc">>),
   get_conflicts |-> M("DIST", FALSE, <<>>),
   start_application |-> M("OPER", TRUE, <<"strategy", "mapp">>),
   test_start_application |-> M("OPER", FALSE, <<"strategy", "mapp">>),
   stop_application |-> M("OPCON", TRUE, <<"mapp">>),
   restart_application |-> M("OPER", TRUE, <<"strategy", "mapp">>),
   start_process |-> M("OPER", TRUE, <<"strategy", "proc">>),
   test_start_process |-> M("OPER", FALSE, <<"strategy", "proc">>),
   start_any_process |-> M("OPER", TRUE, <<"strategy", "other">>),
   stop_process |-> M("OPCON", TRUE, <<"proc">>),
   restart_process |-> M("OPER", TRUE, <<"strategy", "proc">>),
   update_numprocs |-> M("OPER", TRUE, <<"prog", "other">>),
   enable |-> M("OPER", TRUE, <<"prog">>),
   disable |-> M("OPER", TRUE, <<"prog">>),
   conciliate |-> M("CONC", TRUE, <<"cstrategy">>),
   restart_sequence |-> M("OPER", TRUE, <<>>),
   restart |-> M("DISTEND", TRUE, <<>>),
   shutdown |-> M("DISTEND", TRUE, <<>>),
   end_sync |-> M("SYNCUSER", TRUE, <<>>)]

Names == DOMAIN Methods

\* parameter classes: "valid", or <<position, defect>> with defect in
\*  "unknown" (unknown name) / "badstr" / "badint" / "badtype" (strategies) / "unmanaged" (for "mapp")
\*  "badbool" (a boolean where a strategy is expected: neither a name nor a documented value)
\*  "barename" (a namespec made of an application name only, no process of that name: not a namespec of a process)
Defects(kind) == CASE kind \in {"strategy", "cstrategy"} -> {"badstr", "badint", "badtype", "badbool"}
                   [] kind = "mapp" -> {"unknown", "unmanaged"}
                   [] kind = "proc" -> {"unknown", "barename"}
                   [] kind \in {"app", "inst", "prog", "lproc"} -> {"unknown"}
                   [] OTHER -> {}
ParamClasses(m) == {<<0, "valid">>} \cup
                   {<<i, d>> : i \in DOMAIN Methods[m].params, d \in UNION {Defects(Methods[m].params[j]) : j \in DOMAIN Methods[m].params}}
ValidPC(m, pc) == pc[1] = 0 \/ pc[2] \in Defects(Methods[m].params[pc[1]])

FaultOf(defect) == CASE defect \in {"unknown", "barename"} -> "BAD_NAME"
                     [] defect \in {"badstr", "badint", "badtype", "badbool"} -> "INCORRECT_PARAMETERS"
                     [] defect = "unmanaged" -> "NOT_MANAGED"

\* states in which the method is served; "EITHER" where the documentation is ambiguous
Gate(m, s, userSync) ==
  LET g == Methods[m].gate
  IN CASE g = "ALWAYS" -> "SERVED"
       [] g = "DIST" -> IF s \in FromDist \ FromDistEither THEN "SERVED"
                        ELSE IF s \in FromDistEither THEN "EITHER" ELSE "REJECTED"
       [] g = "DISTEND" -> IF s \in FromDist \ FromDistEither THEN "SERVED"
                           ELSE IF s \in FromDistEither THEN "EITHER" ELSE "REJECTED"
       [] g = "OPER" -> IF s = "OPERATION" THEN "SERVED" ELSE "REJECTED"
       [] g = "OPCON" -> IF s \in {"OPERATION", "CONCILIATION"} THEN "SERVED" ELSE "REJECTED"
       [] g = "CONC" -> IF s = "CONCILIATION" THEN "SERVED" ELSE "REJECTED"
       [] g = "SYNCUSER" -> IF s = "SYNCHRONIZATION" /\ userSync THEN "SERVED" ELSE "REJECTED"

\* admitted outcomes: "SERVED" (a result or a method-specific fault such as ALREADY_STARTED, NOT_RUNNING, ...),
\* "BAD_SUPVISORS_STATE", "BAD_NAME", "INCORRECT_PARAMETERS", "NOT_MANAGED", "NOT_APPLICABLE"
Admitted(m, s, pc, userSync) ==
  LET g == Gate(m, s, userSync)
      pf == IF pc[1] = 0 THEN {"SERVED"} ELSE {FaultOf(pc[2])}
  IN IF g = "SERVED" THEN pf
     ELSE IF g = "REJECTED"
          \* a valid request must be refused for the state; with an invalid parameter either fault is a clean refusal
          THEN (IF pc[1] = 0 THEN {"BAD_SUPVISORS_STATE"} ELSE {"BAD_SUPVISORS_STATE"} \cup pf)
               \cup (IF m = "end_sync" /\ s = "SYNCHRONIZATION" THEN {"NOT_APPLICABLE"} ELSE {})
          ELSE {"BAD_SUPVISORS_STATE"} \cup pf
\* a call that is not served must have no effect
MustBeInert(m, s, pc, userSync) == Gate(m, s, userSync) = "REJECTED" \/ pc[1] # 0 \/ ~Methods[m].mutating

Emit == \A m \in Names, si \in DOMAIN States, us \in BOOLEAN :
          \A pc \in {x \in ParamClasses(m) : ValidPC(m, x)} :
             PrintT("C " \o ToJson([m |-> m, s |-> States[si], user |-> us, pos |-> pc[1], defect |-> pc[2],
                                    kinds |-> Methods[m].params, mutating |-> Methods[m].mutating,
                                    admitted |-> Admitted(m, States[si], pc, us),
                                    inert |-> MustBeInert(m, States[si], pc, us)]))
\* sanity of the table
ASSUME \A m \in Names : Methods[m].gate \in {"ALWAYS", "DIST", "DISTEND", "OPER", "OPCON", "CONC", "SYNCUSER"}
ASSUME \A m \in Names, si \in DOMAIN States : Admitted(m, States[si], <<0, "valid">>, FALSE) # {}
ASSUME Emit
ASSUME PrintT("N " \o ToString(Cardinality(Names)))
=============================================================================
