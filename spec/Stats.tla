------------------------------- MODULE Stats -------------------------------
(* C20 - statistics histories (supvisors/statscompiler.py): HostStatisticsInstance / HostStatisticsCompiler and      *)
(* ProcStatisticsInstance / Holder / Compiler for ONE instance, a set of periods, a depth, two interface-like keys  *)
(* per family (net interfaces, disk devices, partitions) that appear / vanish / wrap, and one process whose pid      *)
(* changes. The state is the LENGTH of every series (values are checked on the recorded outputs by StatsMon).        *)
EXTENDS Naturals, Integers, Sequences, FiniteSets, TLC, Json

CONSTANTS Depth,      \* stats_histo (the option's minimum is 10; the compilers take any depth)
          Periods,    \* set of periods (time units)
          MaxT,       \* bound on the abstract time
          Mode        \* "host" | "proc": which compiler is exercised

Keys == {"k1", "k2"}
Fam == {"net", "du"}               \* net_io (disk_io follows the same code path), disk_usage
Steps == {-1, 0, 1, 2}             \* time step of the next sample (clock going backwards included)

VARIABLES now,      \* time of the last sample pushed
          href,     \* [Periods -> -1 (no reference yet) or the 'now' of the reference sample]
          hkeys,    \* reference key sets: [Periods -> [Fam -> SUBSET Keys]]  (keys of ref_stats)
          times,    \* [Periods -> Nat]   len(times) = len(each cpu series) = len(mem)
          ser,      \* [Periods -> [Fam -> [Keys -> -1 (no history) or length of the key's time AND value series]]]
          pid,      \* pid of the process holder entry (0: none)
          pref,     \* [Periods -> -1 or 'now' of the process reference]
          plen,     \* [Periods -> Nat]  len(times) = len(cpu) = len(mem) of the process
          produced, \* output of the last push: set of <<"host"|"proc", period>> points produced
          op

vars == <<now, href, hkeys, times, ser, pid, pref, plen, produced, op>>
View == <<now, href, hkeys, times, ser, pid, pref, plen>>

Cap(n) == IF n > Depth THEN Depth ELSE n

Init == /\ now = 0
        /\ href = [p \in Periods |-> -1] /\ hkeys = [p \in Periods |-> [f \in Fam |-> {}]]
        /\ times = [p \in Periods |-> 0]
        /\ ser = [p \in Periods |-> [f \in Fam |-> [k \in Keys |-> -1]]]
        /\ pid = 0 /\ pref = [p \in Periods |-> -1] /\ plen = [p \in Periods |-> 0]
        /\ produced = {} /\ op = [o |-> "Init"]

\* HostStatisticsInstance.push_statistics for period p with a sample at time t carrying key sets ks[f] and
\* wrapped keys w[f] (counter lower than in the reference sample)
HostPush(p, t, ks, w) ==
  IF href[p] = -1
  THEN [href |-> t, hkeys |-> ks, times |-> times[p],
        ser |-> [f \in Fam |-> [k \in Keys |-> IF k \in ks[f] THEN 0 ELSE -1]], point |-> FALSE]
  ELSE IF t - href[p] >= p
  THEN \* integrate: io families only keep keys present in both samples and not wrapped; usage keeps all its keys
       LET avail == [f \in Fam |-> IF f = "du" THEN ks[f] ELSE (ks[f] \cap hkeys[p][f]) \ w[f]]
           ns == [f \in Fam |-> [k \in Keys |->
                    IF ser[p][f][k] >= 0
                    THEN (IF k \in avail[f] THEN Cap(ser[p][f][k] + 1) ELSE -1)      \* obsolete key destroyed
                    ELSE (IF k \in avail[f] THEN 1 ELSE -1)]]                          \* new key
       IN [href |-> t, hkeys |-> ks, times |-> Cap(times[p] + 1), ser |-> ns, point |-> TRUE]
  ELSE [href |-> href[p], hkeys |-> hkeys[p], times |-> times[p], ser |-> ser[p], point |-> FALSE]

\* ProcStatisticsHolder / Instance
ProcPush(p, t, reset) ==
  IF reset \/ pref[p] = -1 THEN [pref |-> t, plen |-> IF reset THEN 0 ELSE plen[p], point |-> FALSE]
  ELSE IF t - pref[p] >= p THEN [pref |-> t, plen |-> Cap(plen[p] + 1), point |-> TRUE]
  ELSE [pref |-> pref[p], plen |-> plen[p], point |-> FALSE]

PushHost(step, ks, w) ==
  /\ now + step >= 0 /\ now + step <= MaxT
  /\ LET t == now + step
         r == [p \in Periods |-> HostPush(p, t, ks, w)]
     IN /\ now' = t
        /\ href' = [p \in Periods |-> r[p].href] /\ hkeys' = [p \in Periods |-> r[p].hkeys]
        /\ times' = [p \in Periods |-> r[p].times] /\ ser' = [p \in Periods |-> r[p].ser]
        /\ produced' = {<<"host", p>> : p \in {x \in Periods : r[x].point}}
  /\ UNCHANGED <<pid, pref, plen>>
  /\ op' = [o |-> "Host", step |-> step, keys |-> ks, wrap |-> w]

PushProc(step, newpid) ==
  /\ now + step >= 0 /\ now + step <= MaxT
  /\ LET t == now + step
     IN /\ now' = t
        /\ IF newpid = 0
           THEN /\ pid' = 0 /\ pref' = [p \in Periods |-> -1] /\ plen' = [p \in Periods |-> 0] /\ produced' = {}
           ELSE LET reset == pid # newpid
                    r == [p \in Periods |-> ProcPush(p, t, reset)]
                IN /\ pid' = newpid
                   /\ pref' = [p \in Periods |-> r[p].pref] /\ plen' = [p \in Periods |-> r[p].plen]
                   /\ produced' = {<<"proc", p>> : p \in {x \in Periods : r[x].point}}
  /\ UNCHANGED <<href, hkeys, times, ser>>
  /\ op' = [o |-> "Proc", step |-> step, pid |-> newpid]

KeySets == [Fam -> SUBSET Keys]
Next == \/ Mode = "host" /\ \E s \in Steps, ks \in KeySets, wn \in SUBSET {"k1"} :
              wn \subseteq ks["net"] /\ ks["du"] \subseteq {"k1"}
              /\ PushHost(s, ks, [f \in Fam |-> IF f = "net" THEN wn ELSE {}])
        \/ Mode = "proc" /\ \E s \in Steps, np \in 0..2 : PushProc(s, np)
Spec == Init /\ [][Next]_vars

-----------------------------------------------------------------------------
\* Properties (C20)
Bounded == \A p \in Periods : /\ times[p] <= Depth /\ plen[p] <= Depth
                              /\ \A f \in Fam, k \in Keys : ser[p][f][k] <= Depth
\* a point is only produced when at least the period elapsed since the previous reference
Gate == [][\A x \in produced' : IF x[1] = "host" THEN href[x[2]] >= 0 /\ now' - href[x[2]] >= x[2]
                                ELSE pref[x[2]] >= 0 /\ now' - pref[x[2]] >= x[2]]_vars
\* the history of a stopped process (pid 0) is dropped, a new pid starts a fresh history
Dropped == (pid = 0) => \A p \in Periods : plen[p] = 0 /\ pref[p] = -1
Fresh == [][(pid' # pid) => \A p \in Periods : plen'[p] = 0]_vars
\* every produced point lengthens the series by one up to the depth (aligned series: one length for times / values)
Grows == [][\A p \in Periods : (<<"host", p>> \in produced') => times'[p] = Cap(times[p] + 1)]_vars

\* transition log (ACTION_CONSTRAINT) for the replay engine
LogStep == PrintT("T " \o ToJson([pre |-> [now |-> now, href |-> href, hkeys |-> hkeys, times |-> times, ser |-> ser,
                                           pid |-> pid, pref |-> pref, plen |-> plen],
                                   op |-> op',
                                   post |-> [now |-> now', href |-> href', hkeys |-> hkeys', times |-> times',
                                             ser |-> ser', pid |-> pid', pref |-> pref', plen |-> plen']]))

\* behaviour log for -simulate
VARIABLE hist
SpecH == Init /\ hist = <<>> /\ [][Next /\ hist' = Append(hist, [op |-> op', times |-> times', ser |-> ser',
                                                                   plen |-> plen', produced |-> produced',
                                                                   pid |-> pid'])]_<<vars, hist>>
CONSTANT D
SimLog == Len(hist) # D \/ PrintT("B " \o ToJson(SubSeq(hist, 1, D - 1)))
SpecX == Init /\ hist = <<>> /\ [][Next /\ UNCHANGED hist]_<<vars, hist>>
=============================================================================
