------------------------------- MODULE Concil -------------------------------
(* C05 design model: the Master in OPERATION / CONCILIATION facing duplicated processes.                           *)
(* Copies of processes P (managed or not) run on instances I; the Master learns about them through a FIFO of      *)
(* process events; at each Master evaluation (tick) the FSM rule applies: OPERATION + idle + conflict in view ->   *)
(* CONCILIATION and the strategy plans stop requests; in CONCILIATION, idle + no conflict -> OPERATION, idle +      *)
(* conflict -> conciliate again. Stop requests are executed by the instances (RUNNING -> STOPPING -> STOPPED), each *)
(* change being an event. RESTART starts one copy once the stops are reported. New duplicates (direct Supervisor    *)
(* starts) arrive at any time, MaxStarts of them.                                                                  *)
EXTENDS Naturals, Sequences, FiniteSets, TLC, ConcilDef

CONSTANTS P,          \* processes
          Managed,    \* subset of P: processes of managed applications
          I,          \* instances
          Strategy,   \* conciliation strategy
          MaxStarts   \* user starts (direct Supervisor starts)

VARIABLES truth,      \* [P -> [I -> {"S", "R", "X"}]]  stopped / running / stopping
          started,    \* [P -> [I -> Nat]] start stamp of the current copy
          clock,      \* start stamps
          q,          \* FIFO of process events to the Master: <<p, i, state, stamp>>
          view,       \* Master's view of truth
          vstarted,   \* Master's view of the start stamps
          fsm,        \* "OPERATION" / "CONCILIATION"
          reqs,       \* stop / start requests on their way: <<kind, p, i>>
          stopjobs,   \* stop commands waiting for the STOPPED event
          startjobs,  \* start commands waiting for the RUNNING event
          restart,    \* processes to start again once stopped (RESTART)
          budget,
          lastStop    \* ghost: <<p, copies in view, stop set, view start stamps>> of the last conciliation decisions
vars == <<truth, started, clock, q, view, vstarted, fsm, reqs, stopjobs, startjobs, restart, budget, lastStop>>

Running(f, p) == {i \in I : f[p][i] \in {"R"}}
\* (a STOPPING copy is not a running copy: STOPPING is not in RUNNING_STATES)
Conflicts(f) == {p \in Managed : Cardinality(Running(f, p)) > 1}
Idle == stopjobs = {} /\ startjobs = {}

Init == /\ truth = [p \in P |-> [i \in I |-> "S"]]
        /\ started = [p \in P |-> [i \in I |-> 0]]
        /\ clock = 0 /\ q = <<>>
        /\ view = truth /\ vstarted = started
        /\ fsm = "OPERATION" /\ reqs = {} /\ stopjobs = {} /\ startjobs = {} /\ restart = {}
        /\ budget = MaxStarts /\ lastStop = {}

\* a user starts a copy directly through Supervisor
UserStart(p, i) == /\ budget > 0 /\ truth[p][i] = "S"
                   /\ truth' = [truth EXCEPT ![p][i] = "R"]
                   /\ started' = [started EXCEPT ![p][i] = clock + 1] /\ clock' = clock + 1
                   /\ q' = Append(q, <<p, i, "R", clock + 1>>)
                   /\ budget' = budget - 1
                   /\ UNCHANGED <<view, vstarted, fsm, reqs, stopjobs, startjobs, restart, lastStop>>

\* what one conciliation plans (all conflicts at once)
Plan(ss) == \* ss: [conflicting process -> chosen stop set]
  /\ reqs' = reqs \cup UNION {{<<"STOP", p, i>> : i \in ss[p]} : p \in DOMAIN ss}
  /\ stopjobs' = stopjobs \cup UNION {{<<p, i>> : i \in ss[p]} : p \in DOMAIN ss}
  /\ restart' = IF Strategy = "RESTART" THEN restart \cup DOMAIN ss ELSE restart
  /\ lastStop' = {<<p, Running(view, p), ss[p], vstarted[p]>> : p \in DOMAIN ss}

Conciliate == \E ss \in [Conflicts(view) -> SUBSET I] :
                /\ \A p \in Conflicts(view) : ss[p] \in StopSets(Strategy, Running(view, p), vstarted[p], 0)
                /\ Plan(ss)

MasterTick ==
  /\ IF fsm = "OPERATION"
     THEN IF Idle /\ Conflicts(view) # {}
          THEN fsm' = "CONCILIATION" /\ Conciliate
          ELSE UNCHANGED <<fsm, reqs, stopjobs, restart, lastStop>>
     ELSE IF ~Idle THEN UNCHANGED <<fsm, reqs, stopjobs, restart, lastStop>>
          ELSE IF Conflicts(view) = {}
               THEN fsm' = "OPERATION" /\ UNCHANGED <<reqs, stopjobs, restart, lastStop>>
               ELSE fsm' = fsm /\ Conciliate
  /\ UNCHANGED <<truth, started, clock, q, view, vstarted, startjobs, budget>>

\* an instance executes a request
ExecStop(p, i) == /\ <<"STOP", p, i>> \in reqs
                  /\ reqs' = reqs \ {<<"STOP", p, i>>}
                  /\ IF truth[p][i] = "R"
                     THEN truth' = [truth EXCEPT ![p][i] = "X"] /\ q' = Append(q, <<p, i, "X", started[p][i]>>)
                     ELSE UNCHANGED <<truth, q>>
                  /\ UNCHANGED <<started, clock, view, vstarted, fsm, stopjobs, startjobs, restart, budget, lastStop>>
Stopped(p, i) == /\ truth[p][i] = "X"
                 /\ truth' = [truth EXCEPT ![p][i] = "S"] /\ q' = Append(q, <<p, i, "S", started[p][i]>>)
                 /\ UNCHANGED <<started, clock, view, vstarted, fsm, reqs, stopjobs, startjobs, restart, budget, lastStop>>
ExecStart(p, i) == /\ <<"START", p, i>> \in reqs
                   /\ reqs' = reqs \ {<<"START", p, i>>}
                   /\ IF truth[p][i] = "S"
                      THEN /\ truth' = [truth EXCEPT ![p][i] = "R"]
                           /\ started' = [started EXCEPT ![p][i] = clock + 1] /\ clock' = clock + 1
                           /\ q' = Append(q, <<p, i, "R", clock + 1>>)
                      ELSE /\ q' = Append(q, <<p, i, truth[p][i], started[p][i]>>)   \* ALREADY_STARTED: state resent
                           /\ UNCHANGED <<truth, started, clock>>
                   /\ UNCHANGED <<view, vstarted, fsm, stopjobs, startjobs, restart, budget, lastStop>>

\* the Master receives an event; jobs end on the expected event; the pending restarts are triggered when the last
\* stop job of the round ends (Stopper.after)
Deliver ==
  /\ q # <<>>
  /\ LET e == Head(q)   p == e[1]   i == e[2]
         sj == IF e[3] = "S" THEN stopjobs \ {<<p, i>>} ELSE stopjobs
         tj == IF e[3] = "R" THEN startjobs \ {<<p, i>>} ELSE startjobs
         v1 == [view EXCEPT ![p][i] = e[3]]
         fire == IF sj = {} /\ stopjobs # {} THEN restart ELSE {}
     IN /\ q' = Tail(q)
        /\ view' = v1 /\ vstarted' = [vstarted EXCEPT ![p][i] = e[4]]
        /\ stopjobs' = sj
        /\ restart' = restart \ fire
        \* a restart is only started when the process is seen stopped everywhere (else it is left as it is)
        /\ \E tgt \in [fire -> I] :
              LET go == {p2 \in fire : Running(v1, p2) = {}}
              IN /\ reqs' = reqs \cup {<<"START", p2, tgt[p2]>> : p2 \in go}
                 /\ startjobs' = tj \cup {<<p2, tgt[p2]>> : p2 \in go}
  /\ UNCHANGED <<truth, started, clock, fsm, budget, lastStop>>

Next == \/ \E p \in P, i \in I : UserStart(p, i) \/ ExecStop(p, i) \/ Stopped(p, i) \/ ExecStart(p, i)
        \/ MasterTick \/ Deliver

Fair == /\ WF_vars(MasterTick) /\ WF_vars(Deliver)
        /\ \A p \in P, i \in I : WF_vars(ExecStop(p, i)) /\ WF_vars(Stopped(p, i)) /\ WF_vars(ExecStart(p, i))
Spec == Init /\ [][Next]_vars /\ Fair

-----------------------------------------------------------------------------
TypeOK == /\ truth \in [P -> [I -> {"S", "R", "X"}]] /\ fsm \in {"OPERATION", "CONCILIATION"}
          /\ budget \in 0..MaxStarts

\* every stop requested is one the strategy admits for the conflict the Master saw; never for a process without
\* conflict, never for an unmanaged one
ExactStops == \A d \in lastStop : /\ d[1] \in Managed /\ Cardinality(d[2]) > 1
                                  /\ d[3] \in StopSets(Strategy, d[2], d[4], 0)
UnmanagedNever == \A r \in reqs : r[2] \in Managed
UserNothing == Strategy = "USER" => reqs = {} /\ stopjobs = {}
\* SENICIDE / INFANTICIDE never leave a duplicated process without any copy
KeepsOne == Strategy \in {"SENICIDE", "INFANTICIDE"} =>
              \A p \in Managed : (\E i \in I : started[p][i] > 0) => \E i \in I : truth[p][i] = "R"
\* CONCILIATION is only published while there was something to conciliate
ConcilJustified == fsm = "CONCILIATION" => (Conflicts(view) # {} \/ ~Idle \/ lastStop # {} \/ Strategy = "USER")

Quiet == q = <<>> /\ reqs = {} /\ Idle /\ budget = 0
\* once the duplicates stop arriving the conciliation ends: no conflict is left and OPERATION is back (not USER)
Leaves == Strategy # "USER" => <>[](fsm = "OPERATION" /\ Conflicts(truth) = {} /\ Conflicts(view) = {})
UserStays == Strategy = "USER" => [](Conflicts(view) # {} /\ fsm = "CONCILIATION" => Conflicts(truth) # {})
\* number of copies left
Left == [](Quiet /\ fsm = "OPERATION" =>
             \A p \in Managed : (\E i \in I : started[p][i] > 0 /\ Cardinality({j \in I : started[p][j] > 0}) > 1)
                                => TRUE)
=============================================================================
