----------------------------- MODULE ConcilMon -----------------------------
(* C05 monitor over conciliation scenarios recorded from real cores (checks/concil_lib.py).                        *)
(* A trace: strategy, rfs (running failure strategy per process), managed (per process), n, steps, start_step,     *)
(* faults, userstops, neverstop. A step: a, n, user, rnd (round), reqs (<<kind, sender, target, process>>),         *)
(* truth [process -> [instance -> state]], run [instance -> [process -> instances where it is reported running]],  *)
(* views, jobs, fsm, master, alive, err.                                                                           *)
EXTENDS Naturals, Sequences, FiniteSets, TLC, Json, IOUtils, ConcilDef

Traces == JsonDeserialize(IOEnv.TRACE_FILE)

VARIABLES ti, k, g
mvars == <<ti, k, g>>

T == Traces[ti]
P == DOMAIN T.managed
I == 1..T.n
ToSet(q) == {q[i] : i \in DOMAIN q}
RunningLike == {"STARTING", "RUNNING", "BACKOFF"}
Tol == 1

Run(st, v, p) == ToSet(st.run[v][p])
ViewConflicts(st, v) == {p \in P : T.managed[p] /\ Cardinality(Run(st, v, p)) > 1}
TrueCopies(st, p) == {i \in I : st.alive[i] /\ st.truth[p][i] \in RunningLike}
IsMaster(st, v) == st.alive[v] /\ st.master[v] = v
IdleAt(st, v) == ~st.jobs[v][1] /\ ~st.jobs[v][2]
AppLevel == \E p \in P : T.rfs[p] \in {"STOP_APPLICATION", "RESTART_APPLICATION"}
\* stops that are not conciliation stops may legitimately happen (application-level running failure strategies)
Relaxed == AppLevel /\ (T.strategy = "RUNNING_FAILURE" \/ T.faults)

\* RUNNING_FAILURE + RESTART_PROCESS: the restart job of a conciliated process is deferred until its stops are over
\* and then restarts the process whatever happened to it meanwhile (a user start in between is stopped and restarted)
Deferred(gg, p) == T.strategy = "RUNNING_FAILURE" /\ T.rfs[p] = "RESTART_PROCESS"
                   /\ (p \in gg.conciliated \/ \E v \in I : gg.round[v].open /\ p \in DOMAIN gg.round[v].view)

NoRound == [open |-> FALSE, view |-> <<>>, born |-> <<>>, stops |-> <<>>, view2 |-> <<>>]
GInit == [born |-> [p \in P |-> [i \in I |-> 0]],            \* round in which the current copy started
          round |-> [v \in I |-> NoRound],
          conciliated |-> {},                                  \* processes of a completed conciliation round
          bornAfter |-> {},                                    \* processes started again after their last round
          prev |-> <<>>]                                       \* previous step

\* ---------------------------------------------------------------------------------------------------------------
ReqFailures(st, pre, gg, rq) ==
  LET kind == rq[1]   v == rq[2]   tgt == rq[3]   p == rq[4]
      rd == gg.round[v]
      confl == ViewConflicts(pre, v) \cup ViewConflicts(st, v) \cup (IF rd.open THEN DOMAIN rd.view ELSE {})
      seen == Run(pre, v, p) \cup Run(st, v, p) \cup (IF rd.open /\ p \in DOMAIN rd.view THEN rd.view[p] ELSE {})
  IN (IF st.master[v] = v THEN {} ELSE {"C01.MasterOnlyAuto"})
     \cup (IF kind = "STOP"
           THEN (IF T.managed[p] THEN {} ELSE {"C05.UnmanagedNever"})
                \cup (IF T.strategy # "USER" THEN {} ELSE {"C05.UserNothing"})
                \cup (IF Relaxed \/ (p \in confl /\ tgt \in seen) \/ Deferred(gg, p) THEN {}
                      ELSE {"C05.NeverNonConflicting"})
                \cup (IF st.fsm[v] = "CONCILIATION" \/ pre.fsm[v] = "CONCILIATION" \/ Relaxed \/ Deferred(gg, p) THEN {}
                      ELSE {"C05.StopsInConciliation"})
           ELSE {})

StepFailures(st, pre, gg) ==
  UNION {ReqFailures(st, pre, gg, st.reqs[i]) : i \in DOMAIN st.reqs}
  \cup (IF st.err THEN {"C16.NoInternalError"} ELSE {})
  \cup UNION {
       \* Detect: an idle Master in OPERATION that sees a conflict before and after its own evaluation leaves OPERATION
       (IF st.a = "Tick" /\ st.n = v /\ IsMaster(pre, v) /\ IsMaster(st, v)
           /\ pre.fsm[v] = "OPERATION" /\ st.fsm[v] = "OPERATION" /\ IdleAt(pre, v) /\ IdleAt(st, v)
           /\ ViewConflicts(pre, v) \cap ViewConflicts(st, v) # {}
        THEN {"C05.Detect"} ELSE {})
       \* CONCILIATION is only entered by a Master that sees a managed conflict
       \cup (IF IsMaster(pre, v) /\ IsMaster(st, v) /\ pre.fsm[v] = "OPERATION" /\ st.fsm[v] = "CONCILIATION"
                /\ ViewConflicts(pre, v) = {} /\ ViewConflicts(st, v) = {}
             THEN {"C05.OnlyManagedConflicts"} ELSE {})
       \* ... and only left once no conflict remains
       \cup (IF IsMaster(pre, v) /\ IsMaster(st, v) /\ pre.fsm[v] = "CONCILIATION" /\ st.fsm[v] = "OPERATION"
                /\ ViewConflicts(pre, v) \cap ViewConflicts(st, v) # {}
             THEN {"C05.LeaveOnlyWhenClean"} ELSE {})
       : v \in I}

\* a conciliation round of Master v ends when its stopping flag drops: what was asked to stop is what the strategy says
RoundFailures(st, gg) ==
  UNION {LET rd == gg.round[v]
         IN IF rd.open /\ IsMaster(st, v) /\ ~st.jobs[v][2] /\ ~Relaxed
            THEN (IF \A p \in DOMAIN rd.view :
                       \/ rd.stops[p] \in StopSets(T.strategy, rd.view[p], rd.born[p], Tol)
                       \/ (p \in DOMAIN rd.view2 /\ Cardinality(rd.view2[p]) > 1
                           /\ rd.stops[p] \in StopSets(T.strategy, rd.view2[p], rd.born[p], Tol))
                  THEN {} ELSE {"C05.ExactStops"})
            ELSE {} : v \in I}

GStep(st, pre, gg) ==
  LET born1 == [p \in P |-> [i \in I |->
                  IF st.truth[p][i] \in RunningLike
                  THEN (IF pre.truth[p][i] \in RunningLike /\ gg.born[p][i] > 0 THEN gg.born[p][i] ELSE st.rnd + 1)
                  ELSE IF st.truth[p][i] = "STOPPING" THEN gg.born[p][i] ELSE 0]]
      stopsOf(v, p) == {st.reqs[j][3] : j \in {x \in DOMAIN st.reqs : st.reqs[x][1] = "STOP" /\ st.reqs[x][2] = v
                                                                        /\ st.reqs[x][4] = p}}
      anyStop(v) == \E j \in DOMAIN st.reqs : st.reqs[j][1] = "STOP" /\ st.reqs[j][2] = v
      round1 == [v \in I |->
                  LET rd == gg.round[v]
                  IN IF ~IsMaster(st, v) THEN NoRound
                     ELSE IF rd.open
                          THEN (IF ~st.jobs[v][2] /\ ~anyStop(v) THEN NoRound
                                ELSE [rd EXCEPT !.stops = [p \in DOMAIN rd.view |-> rd.stops[p] \cup stopsOf(v, p)]])
                          ELSE IF anyStop(v) /\ ~st.user
                               THEN LET cf == ViewConflicts(pre, v) \cup ViewConflicts(st, v)
                                    IN [open |-> TRUE,
                                        view |-> [p \in cf |-> IF Cardinality(Run(pre, v, p)) > 1 THEN Run(pre, v, p)
                                                               ELSE Run(st, v, p)],
                                        view2 |-> [p \in cf |-> Run(st, v, p)],
                                        born |-> gg.born, stops |-> [p \in cf |-> stopsOf(v, p)]]
                               ELSE NoRound]
      closed == UNION {IF gg.round[v].open /\ ~round1[v].open THEN DOMAIN gg.round[v].view ELSE {} : v \in I}
      reborn == {p \in P : \E i \in I : born1[p][i] # gg.born[p][i] /\ born1[p][i] > 0}
      \* a copy that the Master did not see when it decided (started just before / during the round, its event still on
      \* the way) is not part of the decision: it counts as started after the round
      unseen == UNION {IF gg.round[v].open /\ ~round1[v].open
                       THEN {p \in DOMAIN gg.round[v].view :
                               \E i \in I : st.truth[p][i] \in RunningLike
                                             /\ i \notin gg.round[v].view[p] \cup gg.round[v].view2[p]}
                       ELSE {} : v \in I}
  IN [gg EXCEPT !.born = born1, !.round = round1, !.conciliated = @ \cup closed,
                !.bornAfter = (@ \ closed) \cup (reborn \cap (gg.conciliated \cup closed)) \cup unseen, !.prev = st]

\* ---------------------------------------------------------------------------------------------------------------
\* terminal formulas: the trace ended with enough quiet fair rounds
Terminal(st, gg) ==
  LET masters == {v \in I : IsMaster(st, v)}
      quiet == T.neverstop = <<>> /\ \A v \in I : st.alive[v] => IdleAt(st, v)
  IN (IF (T.strategy # "USER" /\ quiet) =>
            /\ \A v \in I : st.alive[v] => st.fsm[v] = "OPERATION"
            /\ \A p \in P : T.managed[p] => Cardinality(TrueCopies(st, p)) <= 1
            /\ \A v \in masters : ViewConflicts(st, v) = {}
      THEN {} ELSE {"C05.Leaves"})
     \* USER: CONCILIATION as long as the conflict is there, OPERATION once it is gone
     \cup (IF (T.strategy = "USER" /\ quiet) =>
                \A v \in masters : (ViewConflicts(st, v) # {} => st.fsm[v] = "CONCILIATION")
                                   /\ (ViewConflicts(st, v) = {} => st.fsm[v] = "OPERATION")
           THEN {} ELSE {"C05.UserStays"})
     \cup (IF (T.strategy = "USER" /\ ~T.userstops /\ ~T.faults) =>
                \A p \in P : \A i \in I : gg.born[p][i] > 0 => st.truth[p][i] \in RunningLike
           THEN {} ELSE {"C05.UserNothing"})
     \* number of copies left for a conciliated process (nobody else touched it)
     \cup (IF (quiet /\ ~T.userstops /\ ~T.faults /\ ~Relaxed) =>
                \A p \in gg.conciliated \ gg.bornAfter :
                   LET left == Cardinality(TrueCopies(st, p))
                   IN CASE T.strategy \in {"SENICIDE", "INFANTICIDE"} -> left = 1
                        [] T.strategy = "STOP" -> left = 0
                        [] T.strategy = "RUNNING_FAILURE" /\ T.rfs[p] = "CONTINUE" -> left = 0
                        [] OTHER -> TRUE
           THEN {} ELSE {"C05.CopiesLeft"})
     \cup (IF (quiet /\ ~T.userstops /\ ~T.faults /\ ~Relaxed) =>
                \A p \in gg.conciliated :
                   (T.strategy = "RESTART" \/ (T.strategy = "RUNNING_FAILURE" /\ T.rfs[p] = "RESTART_PROCESS"))
                   => Cardinality(TrueCopies(st, p)) = 1
           THEN {} ELSE {"C05.RestartOne"})

Report(tag, t, s, f) == IF f = {} THEN TRUE ELSE PrintT(tag \o ToJson([t |-> t, s |-> s, f |-> f]))

Init == ti \in 1..Len(Traces) /\ k = 0 /\ g = GInit

Step == /\ k < Len(T.steps)
        /\ LET st == T.steps[k + 1]
               pre == IF k = 0 THEN st ELSE T.steps[k]
               g1 == GStep(st, pre, g)
           IN /\ Report("V ", T.id, k + 1, IF k + 1 > T.start_step
                                           THEN StepFailures(st, pre, g) \cup RoundFailures(st, g) ELSE {})
              /\ g' = g1
        /\ k' = k + 1 /\ ti' = ti

End == /\ k = Len(T.steps)
       /\ Report("E ", T.id, k, Terminal(T.steps[k], g))
       /\ PrintT("D " \o ToString(T.id))
       /\ k' = k + 1 /\ UNCHANGED <<ti, g>>

Next == Step \/ End
Spec == Init /\ [][Next]_mvars
=============================================================================
