---------------------------- MODULE AppStatusGen ----------------------------
EXTENDS AppStatus
CONSTANT Depth, DoVectors
ASSUME DoVectors => EmitVectors
ASSUME EmitFormulas(IF Depth = 1 THEN D1 ELSE D2)
ASSUME PrintT("N " \o ToString(<<Cardinality(Vectors), Cardinality(IF Depth = 1 THEN D1 ELSE D2)>>))
=============================================================================
