SPECIFICATION Spec
CONSTANTS N = 2
  Core = {}
  Sync = {"STRICT"}
  AutoFence = FALSE
  FailStrat = "CONTINUE"
  T = 2
  SyncTicks = 3
  MaxCrash = 0
  MaxRestart = 0
  MaxCut = 0
  MaxUser = 0
  SlowQ = {}
  Checkpoint = "COLD"
  FixF1 = FALSE
  HoldDist = FALSE
  MaxRound = 6
  D = 0
VIEW View
CONSTRAINT Bound
