------------------------------ MODULE Failure ------------------------------
(* C06 (object level) - RunningFailureHandler job sets (supvisors/strategy.py): add_*_job, add_default_job with    *)
(* promotion, trigger_* with deferral on applications having start/stop jobs, abort - transcribed next to the     *)
(* reference of the property statement: per application ONE action, precedence STOP_APPLICATION >                 *)
(* RESTART_APPLICATION > RESTART_PROCESS > CONTINUE, RESTART_PROCESS promoted to RESTART_APPLICATION when the     *)
(* application is left stopped, a process with a planned start/stop job is left to that job.                      *)
(* Finite abstract state: TLC exhausts ALL notification histories.                                                *)
EXTENDS FailureRef, TLC, Json

VARIABLES stopApp, restartApp, restartProc, contProc,   \* the four job sets of the code
          stopped,        \* environment: application.stopped()
          busy,           \* environment: applications having Starter / Stopper jobs
          rApp,           \* ref: strongest application-level request pending  [Apps -> "NONE"|"RESTART"|"STOP"]
          rProc,          \* ref: strongest process-level request pending [Procs -> "NONE"|"CONTINUE"|"RESTART"]
          out,            \* calls made by the last trigger: set of <<"stop_app", a>> / <<"restart_app", a>> /
                          \* <<"restart_proc", p>>
          op

cvars == <<stopApp, restartApp, restartProc, contProc>>
vars == <<cvars, stopped, busy, rApp, rProc, out, op>>
View == <<cvars, stopped, busy, rApp, rProc>>

Init == /\ stopApp = {} /\ restartApp = {} /\ restartProc = {} /\ contProc = {}
        /\ stopped \in [Apps -> BOOLEAN] /\ busy \in SUBSET Apps
        /\ rApp = [a \in Apps |-> "NONE"] /\ rProc = [p \in Procs |-> "NONE"]
        /\ out = {} /\ op = [o |-> "Init"]

-----------------------------------------------------------------------------
\* code: add_*_job as functions on a record of the four sets
J == [sa |-> stopApp, ra |-> restartApp, rp |-> restartProc, cp |-> contProc]

AddStopApp(j, a) == [sa |-> j.sa \cup {a}, ra |-> j.ra \ {a},
                     rp |-> {p \in j.rp : AppOf(p) # a}, cp |-> {p \in j.cp : AppOf(p) # a}]
AddRestartApp(j, a) == IF a \in j.sa THEN j
                       ELSE [j EXCEPT !.ra = @ \cup {a},
                                      !.rp = {p \in @ : ~(AppOf(p) = a /\ Sequenced(p))},
                                      !.cp = {p \in @ : ~(AppOf(p) = a /\ Sequenced(p))}]
AddRestartProc(j, p) == IF AppOf(p) \in j.sa THEN j
                        ELSE IF AppOf(p) \in j.ra /\ Sequenced(p) THEN j
                        ELSE [j EXCEPT !.rp = @ \cup {p}, !.cp = @ \ {p}]
AddContinue(j, p) == IF AppOf(p) \in j.sa THEN j
                     ELSE IF AppOf(p) \in j.ra /\ Sequenced(p) THEN j
                     ELSE IF p \in j.rp THEN j
                     ELSE [j EXCEPT !.cp = @ \cup {p}]
AddJobF(j, s, p) == CASE s = "STOP_APPLICATION" -> AddStopApp(j, AppOf(p))
                      [] s = "RESTART_APPLICATION" -> AddRestartApp(j, AppOf(p))
                      [] s = "RESTART_PROCESS" -> AddRestartProc(j, p)
                      [] s = "CONTINUE" -> AddContinue(j, p)
\* add_default_job: RESTART_PROCESS is promoted when the application is stopped and the process is sequenced
AddDefaultF(j, s, p) == LET j1 == AddJobF(j, s, p)
                        IN IF s = "RESTART_PROCESS" /\ stopped[AppOf(p)] /\ Sequenced(p)
                           THEN AddJobF(j1, "RESTART_APPLICATION", p) ELSE j1

SetJ(j) == /\ stopApp' = j.sa /\ restartApp' = j.ra /\ restartProc' = j.rp /\ contProc' = j.cp

-----------------------------------------------------------------------------
\* reference (FailureRef)
RefAdd(s, p, promote) == LET n == RefAddF(rApp, rProc, stopped, s, p, promote) IN rApp' = n.ra /\ rProc' = n.rp

-----------------------------------------------------------------------------
AddJob(s, p) == /\ SetJ(AddJobF(J, s, p)) /\ RefAdd(s, p, FALSE)
                /\ out' = {} /\ op' = [o |-> "AddJob", s |-> s, a |-> p[1], k |-> p[2]]
                /\ UNCHANGED <<stopped, busy>>
AddDefault(s, p) == /\ SetJ(AddDefaultF(J, s, p)) /\ RefAdd(s, p, TRUE)
                    /\ out' = {} /\ op' = [o |-> "AddDefault", s |-> s, a |-> p[1], k |-> p[2]]
                    /\ UNCHANGED <<stopped, busy>>
Abort == /\ SetJ([sa |-> {}, ra |-> {}, rp |-> {}, cp |-> {}])
         /\ rApp' = [a \in Apps |-> "NONE"] /\ rProc' = [p \in Procs |-> "NONE"]
         /\ out' = {} /\ op' = [o |-> "Abort"] /\ UNCHANGED <<stopped, busy>>
\* trigger_jobs: everything about an application without start/stop job fires, the rest is deferred;
\* continue jobs are always dropped
Trigger == /\ SetJ([sa |-> {a \in stopApp : a \in busy}, ra |-> {a \in restartApp : a \in busy},
                    rp |-> {p \in restartProc : AppOf(p) \in busy}, cp |-> {}])
           /\ out' = {<<"stop_app", a, 0>> : a \in stopApp \ busy} \cup {<<"restart_app", a, 0>> : a \in restartApp \ busy}
                     \cup {<<"restart_proc", p[1], p[2]>> : p \in {x \in restartProc : AppOf(x) \notin busy}}
           /\ LET n == RefTriggerF(rApp, rProc, busy) IN rApp' = n.ra /\ rProc' = n.rp
           /\ op' = [o |-> "Trigger"] /\ UNCHANGED <<stopped, busy>>
\* environment
Env == /\ \E s \in [Apps -> BOOLEAN], b \in SUBSET Apps :
            /\ (s # stopped \/ b # busy) /\ stopped' = s /\ busy' = b
            /\ op' = [o |-> "Env", stopped |-> s, busy |-> b]
       /\ out' = {} /\ UNCHANGED <<cvars, rApp, rProc>>

Next == \/ \E s \in Strategies, p \in Procs : AddJob(s, p) \/ AddDefault(s, p)
        \/ Abort \/ Trigger \/ Env
Spec == Init /\ [][Next]_vars

-----------------------------------------------------------------------------
\* Properties
\* the job sets are exactly what the precedence rule prescribes
Precedence == J = RefSets(rApp, rProc)
\* at most one pending action per application; process jobs only where no application job covers them
Exclusive == /\ stopApp \cap restartApp = {}
             /\ \A p \in restartProc \cup contProc : AppOf(p) \notin stopApp
                                                      /\ ~(AppOf(p) \in restartApp /\ Sequenced(p))
             /\ restartProc \cap contProc = {}
\* a trigger fires one action per idle application, by precedence, and leaves busy applications to their jobs
\* (TriggerRef: the calls of a trigger are those of the reference - checked on the step, see TriggerStep)
TriggerOK == op.o = "Trigger" =>
               /\ \A x \in out : x[2] \notin busy
               /\ \A a \in Apps : Cardinality({x \in out : x[2] = a /\ x[1] \in {"stop_app", "restart_app"}}) <= 1
               /\ \A x \in out : x[1] = "restart_proc" =>
                      ~(\E y \in out : y[2] = x[2] /\ (y[1] = "stop_app" \/ (y[1] = "restart_app" /\ Sequenced(<<x[2], x[3]>>))))

TriggerStep == [][op'.o = "Trigger" => out' = RefTriggerF(rApp, rProc, busy).out]_vars

\* transition log (ACTION_CONSTRAINT) for the replay engine
Ser(sa, ra, rp, cp) == [sa |-> sa, ra |-> ra, rp |-> rp, cp |-> cp]
LogStep == op'.o = "Env" \/
           PrintT("T " \o ToJson([pre |-> [j |-> Ser(stopApp, restartApp, restartProc, contProc),
                                           stopped |-> stopped, busy |-> busy, rApp |-> rApp,
                                           rProc |-> [a \in Apps |-> [k \in 1..NP |-> rProc[<<a, k>>]]]],
                                   op |-> op',
                                   post |-> [j |-> Ser(stopApp', restartApp', restartProc', contProc'),
                                             stopped |-> stopped', busy |-> busy'],
                                   out |-> out']))
=============================================================================
