CONSTANTS K = 4
