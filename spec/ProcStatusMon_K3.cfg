CONSTANTS K = 3
