----------------------------- MODULE ReplicaMon -----------------------------
(* C12 monitor over runs recorded from real cores (checks/c12.py).                                                 *)
(* A trace: n, procs (names), steps. A step: a, n, d (destination of a proxy step), k (kind of the item served),    *)
(* ev (process index of a process publication, else 0), pend (items left in all FIFOs), alive, fsm,                  *)
(* inst [i -> [j -> state of j at i]], truth [p -> [j -> Supervisor state]], views [i -> [p -> reported state]],     *)
(* run [i -> [p -> instances where i reports p running]].                                                           *)
EXTENDS Naturals, Sequences, FiniteSets, TLC, Json, IOUtils

Traces == JsonDeserialize(IOEnv.TRACE_FILE)
VARIABLES ti, k, g
mvars == <<ti, k, g>>

T == Traces[ti]
I == 1..T.n
P == DOMAIN T.procs
ToSet(s) == {s[x] : x \in DOMAIN s}
RunningLike == {"STARTING", "BACKOFF", "RUNNING"}
Active == {"CHECKING", "CHECKED", "RUNNING", "FAILED"}
Serving == {"DISTRIBUTION", "OPERATION", "CONCILIATION"}

\* ghost: lost[i][j][p] - an event of process p on j, newer than the snapshot of j that i holds, was not sent to i (j did
\* not hold i in an active state when its proxy served the event) or was discarded by i (i did not hold j CHECKED /
\* RUNNING): finding F4. lap = the same since the last pull that is still waiting to be loaded; out = such a pull exists
\* (a pull made while another one is outstanding, or whose result arrives when j is not CHECKING any more, is ignored
\* by the code: its ALL_INFO notification loads nothing)
Fn(v) == [i \in I |-> [j \in I |-> [p \in P |-> v]]]
\* knew[i][j][p]: when j was lost, i reported p running on j (C07: it must then report p FATAL, unless p runs again)
GInit == [lost |-> Fn(FALSE), lap |-> Fn(FALSE), out |-> [i \in I |-> [j \in I |-> FALSE]], knew |-> Fn(FALSE)]

GStep(st, pre, gg) ==
  LET \* a state change of the local Supervisor while the instance has not finished its own handshake (it holds itself
      \* CHECKING): the event is discarded by the same acceptance rule
      notsent(i, j, p) == i = j /\ pre.alive[i] /\ st.alive[i] /\ pre.truth[p][i] # st.truth[p][i]
                          /\ (pre.inst[i][i] \notin {"CHECKED", "RUNNING"} \/ st.inst[i][i] \notin {"CHECKED", "RUNNING"})
      \* the proxy of j serves the event for i: sent only if j holds i in an active state, accepted only if i holds j
      \* CHECKED / RUNNING
      dropped(i, j, p) == st.a = "Proxy" /\ st.n = j /\ st.d = i /\ i # j /\ st.ev = p
                          /\ (pre.inst[i][j] \notin {"CHECKED", "RUNNING"} \/ pre.inst[j][i] \notin Active)
      miss(i, j, p) == notsent(i, j, p) \/ dropped(i, j, p)
      \* (a pull served while j is down fails: no result will come)
      pulled(i, j) == st.a = "Proxy" /\ st.n = i /\ st.d = j /\ st.k = "REQUEST:0" /\ pre.alive[j]
      arrived(i, j) == st.a = "Proxy" /\ st.n = i /\ st.d = i /\ st.k = "NOTIFICATION:3:n" \o ToString(j)
      loaded(i, j) == arrived(i, j) /\ pre.inst[i][j] = "CHECKING"
      gonei(i) == ~st.alive[i] \/ (st.a = "Boot" /\ st.n = i)
      gonej(j) == ~st.alive[j] \/ (st.a = "Boot" /\ st.n = j)
      gone(i, j) == gonei(i) \/ gonej(j)
      \* j restarted before i noticed that it was gone: i keeps its records of the previous incarnation (no new
      \* handshake) - the reset of the process table of j is an event i never gets
      unnoticed(i, j) == st.a = "Boot" /\ st.n = j /\ i # j /\ st.alive[i] /\ pre.inst[i][j] \in Active
  IN [lost |-> [i \in I |-> [j \in I |-> [p \in P |->
                 IF unnoticed(i, j) THEN TRUE
                 ELSE IF gone(i, j) THEN FALSE
                 ELSE IF loaded(i, j) THEN gg.lap[i][j][p]
                 ELSE gg.lost[i][j][p] \/ miss(i, j, p)]]],
      \* (the result of a pull that is still waiting in the FIFO of i when j goes down / comes back describes the
      \*  PREVIOUS incarnation of j: whatever it says is stale - no incarnation number tells i so)
      lap |-> [i \in I |-> [j \in I |-> [p \in P |->
                 IF unnoticed(i, j) THEN TRUE
                 ELSE IF gonei(i) THEN FALSE
                 ELSE IF gonej(j) THEN gg.out[i][j]
                 ELSE IF pulled(i, j) /\ ~gg.out[i][j] THEN FALSE
                 ELSE gg.lap[i][j][p] \/ miss(i, j, p)]]],
      knew |-> [i \in I |-> [j \in I |-> [p \in P |->
                 IF st.a = "Crash" /\ st.n = j /\ i # j
                 THEN /\ pre.alive[i] /\ j \in ToSet(pre.run[i][p]) /\ pre.inst[i][j] = "RUNNING"
                      /\ pre.truth[p][j] \in {"STARTING", "RUNNING", "BACKOFF"}
                      \* (p runs nowhere else, and i is not about to load the - then fresher - records of another instance)
                      /\ \A x \in I \ {j} : pre.truth[p][x] \notin RunningLike \cup {"STOPPING"} /\ pre.inst[i][x] # "CHECKING"
                 ELSE IF ~st.alive[i] \/ (st.a = "Boot" /\ (st.n = i \/ st.n = j)) THEN FALSE
                 \* (any later activity of p anywhere, or records of p loaded from a joining instance, end the obligation:
                 \*  the displayed state is then the one of the most recent record)
                 ELSE /\ gg.knew[i][j][p]
                      /\ \A x \in I \ {j} : st.truth[p][x] = pre.truth[p][x] \/ st.truth[p][x] = "NONE" \/ pre.truth[p][x] = "NONE"
                      /\ \A x \in I : ~arrived(i, x)]]],
      out |-> [i \in I |-> [j \in I |->
                 \* (the FIFO of i is lost with i only)
                 IF gonei(i) \/ arrived(i, j) THEN FALSE ELSE gg.out[i][j] \/ pulled(i, j)]]]

Quiescent(st) == /\ st.pend = 0
                 /\ \A i \in I : st.alive[i] => /\ st.fsm[i] \in Serving
                                                /\ \A j \in I : st.inst[i][j] \notin {"CHECKING", "CHECKED", "FAILED"}
                                                /\ \A j \in I : st.alive[j] => st.inst[i][j] = "RUNNING"
                                                \* (a lost instance has been noticed: membership has settled)
                                                /\ \A j \in I : ~st.alive[j] => st.inst[i][j] \notin Active

Run(st, i, p) == ToSet(st.run[i][p])
\* truth: where the Supervisors of the instances that i sees RUNNING really run p (a STOPPING copy may be listed or not)
Must(st, i, p) == {j \in I : st.alive[j] /\ st.inst[i][j] = "RUNNING" /\ st.truth[p][j] \in RunningLike}
May(st, i, p) == Must(st, i, p) \cup {j \in I : st.alive[j] /\ st.inst[i][j] = "RUNNING" /\ st.truth[p][j] = "STOPPING"}

Failures(st, gg) ==
  IF ~Quiescent(st) THEN {}
  ELSE LET live == {i \in I : st.alive[i]}
           wrong == {<<i, j, p>> \in live \X I \X P :
                       \/ j \in Run(st, i, p) /\ j \notin May(st, i, p)
                       \/ j \in Must(st, i, p) /\ j \notin Run(st, i, p)}
           disagree == {<<i, kk, p>> \in live \X live \X P :
                          \/ Run(st, i, p) # Run(st, kk, p)
                          \/ (st.views[i][p] \in RunningLike) # (st.views[kk][p] \in RunningLike)
                          \/ (st.views[i][p] \in RunningLike /\ st.views[i][p] # st.views[kk][p])}
           \* a record whose running state is not the true one (one copy: the displayed state is that copy's)
           \* (several copies: the displayed state is one of the copies'; a state that no copy has is attributed to the
           \* copies whose record is known to be stale)
           wrongst == {<<i, j, p>> \in live \X I \X P :
                         /\ j \in Must(st, i, p) /\ Run(st, i, p) = Must(st, i, p)
                         /\ st.views[i][p] \in RunningLike
                         /\ st.views[i][p] \notin {st.truth[p][x] : x \in Must(st, i, p)}
                         /\ (Cardinality(Must(st, i, p)) = 1 \/ gg.lost[i][j][p])}
           explained(w) == gg.lost[w[1]][w[2]][w[3]]
           allwrong == wrong \cup wrongst
           \* a disagreement is explained when one of the two records is a wrong one that is explained
           dexplained(x) == \E w \in allwrong : w[3] = x[3] /\ (w[1] = x[1] \/ w[1] = x[2]) /\ explained(w)
       IN (IF \A w \in allwrong : explained(w) THEN {} ELSE {"C12.Truth"})
          \cup (IF \A x \in disagree : dexplained(x) THEN {} ELSE {"C12.Agreement"})
          \cup (IF allwrong # {} /\ \A w \in allwrong : explained(w) THEN {"KNOWN.F4"} ELSE {})
          \* C07: every process the lost instance was running is reported FATAL by those who knew it ran there
          \cup (IF \A i \in live, j \in I, p \in P :
                     (gg.knew[i][j][p] /\ ~st.alive[j] /\ \A x \in I : ~(st.alive[x] /\ st.truth[p][x] \in RunningLike))
                     => st.views[i][p] = "FATAL"
                THEN {} ELSE {"C07.LostProcessFatal"})

Report(tag, t, s, f) == IF f = {} THEN TRUE ELSE PrintT(tag \o ToJson([t |-> t, s |-> s, f |-> f]))

Init == ti \in 1..Len(Traces) /\ k = 0 /\ g = GInit
Step == /\ k < Len(T.steps)
        /\ LET st == T.steps[k + 1]
               pre == IF k = 0 THEN st ELSE T.steps[k]
               g1 == GStep(st, pre, g)
           IN /\ Report("V ", T.id, k + 1, Failures(st, g1) \cup (IF st.err THEN {"C16.NoInternalError"} ELSE {}))
              /\ g' = g1
        /\ k' = k + 1 /\ ti' = ti
End == /\ k = Len(T.steps)
       /\ PrintT("D " \o ToString(T.id))
       /\ PrintT("Q " \o ToJson([t |-> T.id, q |-> Cardinality({s \in DOMAIN T.steps : Quiescent(T.steps[s])}),
                                   \* (C07 obligations still standing at the end: losses whose processes must show FATAL)
                                   kn |-> Cardinality({x \in I \X I \X P : g.knew[x[1]][x[2]][x[3]]})]))
       /\ k' = k + 1 /\ UNCHANGED <<ti, g>>
Next == Step \/ End
Spec == Init /\ [][Next]_mvars
=============================================================================
