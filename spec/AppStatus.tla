----------------------------- MODULE AppStatus -----------------------------
(* C15 - definition-level specification of the application state and operational status (supvisors/application.py  *)
(* ApplicationStatus.update_state / update_status_required / update_status_formula / evaluate), transcribed from   *)
(* the DOCUMENTED rule. TLC enumerates the whole finite input space and prints, for each input, the set of         *)
(* outcomes the statement admits; the harness realises each input on a real ApplicationStatus of a live node.      *)
EXTENDS Naturals, Sequences, FiniteSets, TLC, Json

\* displayed state of a process (EXITED split by expected_exit)
DS == {"STOPPED", "STARTING", "RUNNING", "BACKOFF", "STOPPING", "EXITED_OK", "EXITED_KO", "FATAL", "UNKNOWN"}
Names == <<"p1", "p2", "q1">>
NPr == 3

AppState(v) == IF \E i \in 1..NPr : v[i].st = "STOPPING" THEN "STOPPING"
               ELSE IF \E i \in 1..NPr : v[i].st \in {"STARTING", "BACKOFF"} THEN "STARTING"
               ELSE IF \E i \in 1..NPr : v[i].st = "RUNNING" THEN "RUNNING"
               ELSE "STOPPED"
Broken(p) == p.st \in {"FATAL", "UNKNOWN", "EXITED_KO"}

\* without formula
Major(v) == \E i \in 1..NPr : v[i].req /\ (Broken(v[i]) \/ (v[i].st = "STOPPED" /\ AppState(v) # "STOPPED"))
\* minor: only non-required processes are broken. The statement can also be read as covering a non-required process
\* STOPPED while the application is not: both readings are admitted then.
MinorSet(v) == IF Major(v) THEN {FALSE}
               ELSE IF \E i \in 1..NPr : ~v[i].req /\ Broken(v[i]) THEN {TRUE}
               ELSE IF \E i \in 1..NPr : ~v[i].req /\ v[i].st = "STOPPED" /\ AppState(v) # "STOPPED" THEN BOOLEAN
               ELSE {FALSE}

\* the vectors: 3 processes x 9 displays x required (required implies sequenced: the rules drop it otherwise)
PV == {[st |-> s, req |-> r] : s \in DS, r \in BOOLEAN}
Vectors == {<<a, b, c>> : a \in PV, b \in PV, c \in PV}

-----------------------------------------------------------------------------
\* formula trees: <<"n", name>> exact name, <<"p", k>> pattern k, <<"not", t>>, <<"any", t>>, <<"all", t>>,
\* <<"and", t, u>>, <<"or", t, u>>
\* patterns: 1 = "p." (matches p1 and p2), 2 = "q.*" (matches q1 only), 3 = "z.*" (matches nothing)
Matches(k) == CASE k = 1 -> {1, 2} [] k = 2 -> {3} [] k = 3 -> {}
Leaves == {<<"n", 1>>, <<"n", 3>>, <<"p", 1>>, <<"p", 2>>, <<"p", 3>>}
Un(S) == {<<o, t>> : o \in {"not", "any", "all"}, t \in S}
Bin(S) == {<<o, t, u>> : o \in {"and", "or"}, t \in S, u \in S}
D1 == Leaves \cup Un(Leaves) \cup Bin(Leaves)
D2 == D1 \cup Un(D1) \cup Bin(Un(Leaves) \cup Leaves)
\* status of process i under truth assignment b (b[i]: running-like or exited as expected)
\* Eval yields [k |-> "B", v |-> boolean] / [k |-> "L", v |-> sequence of booleans] / [k |-> "E"]
B(x) == [k |-> "B", v |-> x]
Err == [k |-> "E", v |-> FALSE]
RECURSIVE Eval(_, _)
Eval(t, b) ==
  CASE t[1] = "n" -> B(b[t[2]])
    [] t[1] = "p" -> LET m == Matches(t[2])
                     IN IF m = {} THEN Err
                        ELSE IF Cardinality(m) = 1 THEN B(b[CHOOSE i \in m : TRUE])
                        ELSE [k |-> "L", v |-> [i \in 1..Cardinality(m) |-> b[i]]]   \* "p." matches processes 1, 2
    [] t[1] = "not" -> LET x == Eval(t[2], b) IN IF x.k = "B" THEN B(~x.v) ELSE Err
    [] t[1] \in {"any", "all"} ->
         LET x == Eval(t[2], b)
         IN IF x.k = "E" THEN Err
            ELSE IF x.k = "B" THEN x
            ELSE IF t[1] = "any" THEN B(\E i \in DOMAIN x.v : x.v[i]) ELSE B(\A i \in DOMAIN x.v : x.v[i])
    [] t[1] \in {"and", "or"} ->
         LET x == Eval(t[2], b)   y == Eval(t[3], b)
         IN IF x.k = "B" /\ y.k = "B" THEN B(IF t[1] = "and" THEN x.v /\ y.v ELSE x.v \/ y.v) ELSE Err
\* major failure with a formula: its negation; anything that is not a boolean result is a major failure
MajorF(t, b) == LET x == Eval(t, b) IN IF x.k = "B" THEN ~x.v ELSE TRUE

Assign == [1..NPr -> BOOLEAN]

-----------------------------------------------------------------------------
\* sanity of the definition itself (checked by TLC)
ASSUME \A v \in Vectors : (Major(v) => MinorSet(v) = {FALSE}) /\ AppState(v) \in {"STOPPING", "STARTING", "RUNNING", "STOPPED"}
ASSUME \A t \in D1, b \in Assign : MajorF(t, b) \in BOOLEAN

\* emission of the cases
EmitVectors == \A v \in Vectors :
                 PrintT("C " \o ToJson([v |-> [i \in 1..NPr |-> <<v[i].st, v[i].req>>], state |-> AppState(v),
                                         major |-> Major(v), minor |-> MinorSet(v)]))
AssignSeq == <<<<FALSE, FALSE, FALSE>>, <<FALSE, FALSE, TRUE>>, <<FALSE, TRUE, FALSE>>, <<FALSE, TRUE, TRUE>>,
              <<TRUE, FALSE, FALSE>>, <<TRUE, FALSE, TRUE>>, <<TRUE, TRUE, FALSE>>, <<TRUE, TRUE, TRUE>>>>
EmitFormulas(S) == \A t \in S : PrintT("F " \o ToJson([t |-> t, major |-> [k \in 1..8 |-> MajorF(t, AssignSeq[k])]]))
=============================================================================
