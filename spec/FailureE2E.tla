---------------------------- MODULE FailureE2E ----------------------------
(* C06 end to end: oracle over scenario summaries recorded from real cores (SimCluster). One record per scenario: *)
(*  strategy   running_failure_strategy of the lost process p                                                      *)
(*  master     the Master when the instance was lost;  lost: the lost instance                                     *)
(*  peers      processes of the same application running on survivors at that time: set of <<name, instance>>      *)
(*  sequenced  names of the application's processes that are in its start sequence                                  *)
(*  reqs       requests emitted by ANY instance after the loss, in order: <<kind, sender, target, name>>            *)
(*  final      where each process of the application truly runs at the end: set of <<name, instance>>              *)
(*  alive      surviving instances;  crash: TRUE when p crashed instead of its instance being lost                  *)
EXTENDS Naturals, Sequences, FiniteSets, TLC, Json, IOUtils

Recs == JsonDeserialize(IOEnv.RECS_FILE)
ToSet(s) == {s[i] : i \in DOMAIN s}

Starts(r) == {i \in DOMAIN r.reqs : r.reqs[i][1] = "START"}
Stops(r) == {i \in DOMAIN r.reqs : r.reqs[i][1] = "STOP"}

\* F16: the lost instance was the Master: the survivors forget the lost processes when they go to ELECTION, the new
\* Master never applies the running failure strategies (known_findings.json)
Known_F16(r) == ~r.crash /\ r.master0 = r.lost

Failed(r) ==
  LET alive == ToSet(r.alive)
      peers == ToSet(r.peers)
      final == ToSet(r.final)
      seqd == ToSet(r.sequenced)
      masterOnly == \A i \in DOMAIN r.reqs : r.reqs[i][2] = r.master
      startsP == {i \in Starts(r) : r.reqs[i][4] = r.p}
      restartProc == /\ Cardinality(startsP) = 1
                     /\ \A i \in startsP : r.reqs[i][3] \in alive
                     /\ Stops(r) = {}
                     /\ Cardinality({x \in final : x[1] = r.p}) = 1
      stopApp == /\ Starts(r) = {}
                 /\ \A x \in peers : \E i \in Stops(r) : r.reqs[i][4] = x[1] /\ r.reqs[i][3] = x[2]
                 /\ \A i \in Stops(r) : <<r.reqs[i][4], r.reqs[i][3]>> \in peers
                 /\ final = {}
      restartApp == /\ \A x \in peers : \E i \in Stops(r) : r.reqs[i][4] = x[1] /\ r.reqs[i][3] = x[2]
                    /\ \A i \in Stops(r) : <<r.reqs[i][4], r.reqs[i][3]>> \in peers
                    \* every sequenced process is started once, after every stop
                    /\ \A n \in seqd : Cardinality({i \in Starts(r) : r.reqs[i][4] = n}) = 1
                    /\ \A i \in Starts(r) : r.reqs[i][4] \in seqd /\ \A j \in Stops(r) : j < i
                    /\ {x[1] : x \in final} = seqd
      cont == r.reqs = <<>> /\ final = peers
  IN (IF masterOnly THEN {} ELSE {"MasterOnly"})
     \cup (CASE r.strategy = "RESTART_PROCESS" -> IF restartProc THEN {} ELSE {"RestartProcess"}
             [] r.strategy = "STOP_APPLICATION" -> IF stopApp THEN {} ELSE {"StopApplication"}
             [] r.strategy = "RESTART_APPLICATION" -> IF restartApp THEN {} ELSE {"RestartApplication"}
             [] r.strategy = "CONTINUE" -> IF cont THEN {} ELSE {"Continue"}
             [] OTHER -> {"UnknownStrategy"})
     \cup (IF r.err THEN {"NoErr"} ELSE {})

Check(i) == LET f == Failed(Recs[i])
            IN IF f = {} THEN TRUE
               ELSE IF Known_F16(Recs[i]) /\ f \subseteq {"RestartProcess", "StopApplication", "RestartApplication"}
                    THEN PrintT("K " \o ToJson([i |-> i, known |-> {"F16"}]))
                    ELSE PrintT("V " \o ToJson([i |-> i, failed |-> f]))
ASSUME PrintT("N " \o ToString(Len(Recs)))
ASSUME \A i \in 1..Len(Recs) : Check(i)
=============================================================================
