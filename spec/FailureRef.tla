---------------------------- MODULE FailureRef ----------------------------
(* C06 - reference of the running-failure precedence rule, written from the property statement only.            *)
(* Pending requests: rApp[a] in "NONE" < "RESTART" < "STOP", rProc[p] in "NONE" < "CONTINUE" < "RESTART".        *)
EXTENDS Naturals, Sequences, FiniteSets

CONSTANTS NA,      \* applications 1..NA
          NP       \* processes per application; process <<a, k>>; Sequenced(p): k is odd (in the start sequence)

Apps == 1..NA
Procs == {<<a, k>> : a \in Apps, k \in 1..NP}
AppOf(p) == p[1]
Sequenced(p) == p[2] % 2 = 1
Strategies == {"CONTINUE", "RESTART_PROCESS", "STOP_APPLICATION", "RESTART_APPLICATION"}

Rank(x) == CASE x = "NONE" -> 0 [] x = "CONTINUE" -> 1 [] x = "RESTART" -> 2 [] x = "STOP" -> 3
MaxOf(x, y) == IF Rank(x) >= Rank(y) THEN x ELSE y

\* a failure notification with strategy s for process p (promote: through add_default_job; stp: application.stopped())
RefAddF(ra, rp, stp, s, p, promote) ==
  LET a == AppOf(p)
      s1 == IF promote /\ s = "RESTART_PROCESS" /\ stp[a] /\ Sequenced(p) THEN "RESTART_APPLICATION" ELSE s
  IN [ra |-> IF s1 = "STOP_APPLICATION" THEN [ra EXCEPT ![a] = "STOP"]
             ELSE IF s1 = "RESTART_APPLICATION" THEN [ra EXCEPT ![a] = MaxOf(@, "RESTART")]
             ELSE ra,
      rp |-> IF s = "RESTART_PROCESS" THEN [rp EXCEPT ![p] = "RESTART"]
             ELSE IF s = "CONTINUE" THEN [rp EXCEPT ![p] = MaxOf(@, "CONTINUE")]
             ELSE rp]

\* what the statement prescribes for the job sets given the pending requests
Covered(p, ra) == ra[AppOf(p)] = "STOP" \/ (ra[AppOf(p)] = "RESTART" /\ Sequenced(p))
RefSets(ra, rp) == [sa |-> {a \in Apps : ra[a] = "STOP"},
                    ra |-> {a \in Apps : ra[a] = "RESTART"},
                    rp |-> {p \in Procs : rp[p] = "RESTART" /\ ~Covered(p, ra)},
                    cp |-> {p \in Procs : rp[p] = "CONTINUE" /\ ~Covered(p, ra)}]

\* a trigger: idle applications get their single action, busy ones are left to their jobs, CONTINUE is dropped
RefTriggerF(ra, rp, busy) ==
  LET sets == RefSets(ra, rp)
  IN [ra |-> [a \in Apps |-> IF a \in busy THEN ra[a] ELSE "NONE"],
      rp |-> [p \in Procs |-> IF AppOf(p) \in busy /\ rp[p] = "RESTART" THEN "RESTART" ELSE "NONE"],
      out |-> {<<"stop_app", a, 0>> : a \in sets.sa \ busy} \cup {<<"restart_app", a, 0>> : a \in sets.ra \ busy}
              \cup {<<"restart_proc", p[1], p[2]>> : p \in {x \in sets.rp : AppOf(x) \notin busy}}]
=============================================================================
