"""Shared driver of the cluster-level checks (C01 C02 C07 C08 C13 C16).

For one property:
 E1  Cluster.tla is model-checked by TLC for the property's configurations (exhaustive within the stated bounds)
     against the property's formulas of ClusterProps (action properties / terminal invariants);
 E2  behaviours of Cluster.tla (TLC -simulate) are replayed on real Supvisors cores (SimCluster); the projected
     real state is compared with the model state after each action (a mismatch is DRIFT, not a verdict);
 E3a every recorded real execution (replayed behaviours + independent seeded random schedules with faults and
     adversarial injections, each followed by a fair quiet tail) is checked by TLC (ClusterMon.tla) against the
     SAME formulas. Only E3a failures give VIOLATION; E1 counterexamples are replayed on the real code first.
"""
import concurrent.futures as cf
import json
import os
import time
import re
import sys

sys.path.insert(0, os.path.join(os.path.dirname(os.path.abspath(__file__)), '..', 'harness'))
import vlib
import clusterlib as cl
from vlib import MachineryFailure

KNOWN_PREFIX = 'KNOWN.'
MachineryFailure = MachineryFailure


def e1_run(args):
    cfg, invariants, properties, timeout, workers = args
    sc = vlib.scratch()
    path = os.path.join(sc, f'e1_{cfg.name}.cfg')
    cfg.write_cfg(path, invariants=invariants, properties=properties)
    r = vlib.run_tlc('Cluster', path, timeout=timeout, dfs_queue=True, workers=workers, coverage=False)
    acts = []
    if r.violated:
        acts = [a for a in re.findall(r'/\\ act = (<<.*?>>)\n', r.stdout)]
    return cfg, r, acts


def parse_act(a):
    """'<<"Deliver", 1, 2, "TICK">>' -> ['Deliver', 1, 2, 'TICK']"""
    inner = a.strip()[2:-2]
    out = []
    for tok in inner.split(','):
        tok = tok.strip()
        if tok.startswith('"'):
            out.append(tok.strip('"'))
        elif tok in ('TRUE', 'FALSE'):
            out.append(tok == 'TRUE')
        else:
            out.append(int(tok))
    return out


def replay_counterexample(cfg, acts, tail):
    """Replay a model counterexample (list of act labels) on the real code; returns the recorder."""
    from recorder import Driver
    c = cl.make_cluster(cfg)
    d = Driver(c)
    ended = False
    try:
        for n in c.nodes:
            d.boot(n)
        for a in acts:
            if a[0] == 'Init':
                continue
            sch = cl.act_to_schedule(a)
            if sch[0] == 'noop':
                continue
            if a[0] == 'User':
                ended = True
            if sch[0] == 'proxy' and c.head_kind(sch[1], sch[2]) is None:
                break
            d.replay([sch])
        cl.fair_tail(d, cfg, tail)
    finally:
        c.close()
    return d.rec, ended


def run(pid, tier, seed, labels, terminal_labels, e1_cfgs, e1_invariants, e1_properties, sim_cfgs, rnd_cfgs,
        n_beh, beh_depth, n_rnd, rnd_steps, tail=12, extra_scenarios=None, inject=True, e1_timeout=900,
        notes=None):
    v = vlib.Verdict(pid, tier, seed)
    listed = {f['id']: f for f in vlib.known_for(pid)}
    all_labels = set(labels) | set(terminal_labels)

    def handle(failures, cfg, recs, kind):
        for f in failures:
            mine = [x for x in f['f'] if x in all_labels]
            known = [x for x in f['f'] if x.startswith(KNOWN_PREFIX)]
            rec = recs.get(f['t'])
            for k in known:
                fid = k[len(KNOWN_PREFIX):]
                if fid in listed:
                    v.known(fid, listed[fid]['what'])
                elif any(fid in (ff.get('id'),) for ff in vlib.load_known().get('findings', [])):
                    pass          # a finding of another property
                else:
                    v.violation(f'{cfg.name}: signature {fid} matched but it is not a listed finding',
                                {'cfg': cfg.__dict__, 'schedule': rec.schedule if rec else None})
            if mine:
                v.violation(f'{cfg.name}: {mine} at step {f["s"]} of a {kind} run',
                            {'cfg': {k: getattr(cfg, k) for k in ('n', 'core', 'sync', 'auto_fence', 'fail', 't',
                                                                   'sync_ticks')},
                             'failed': mine, 'step': f['s'], 'tail': tail,
                             'schedule': rec.schedule if rec else None})

    # ---- E1 -------------------------------------------------------------------------------------------------
    jobs = [(c, e1_invariants, e1_properties, e1_timeout, os.cpu_count() or 8) for c in e1_cfgs]
    cex = []
    # the whole E1 phase of a thorough run is given 60 minutes: configurations that do not fit are listed as skipped
    e1_budget = float(os.environ.get('VERIF_E1_BUDGET', '3600'))
    e1_t0 = time.time()

    def budgeted(js):
        for j in js:
            if time.time() - e1_t0 > e1_budget:
                v.notes.append(f'E1 {j[0].name} skipped: the E1 time budget of the run ({int(e1_budget)} s) is spent')
                continue
            left = e1_budget - (time.time() - e1_t0)
            yield e1_run((j[0], j[1], j[2], max(60, min(j[3], left)), j[4]))
    if True:
        for cfg, r, acts in budgeted(jobs):
            v.add_tlc(f'Cluster {cfg.name}', r)
            if r.violated:
                cex.append((cfg, r, acts))
            elif r.timed_out:
                v.notes.append(f'E1 {cfg.name} stopped by the time limit after {r.distinct} states')
            elif not r.ok:
                raise MachineryFailure(f'TLC {cfg.name}: {r.error_text[:2000]}')
    v.cov['exhaustive'] = all(not x['violated'] for x in v.cov['tlc_runs']) and not v.notes
    # a model counterexample is only an alarm if the real code reproduces the property failure (E3a below)
    cex_traces = {}
    for cfg, r, acts in cex:
        rec, ended = replay_counterexample(cfg, [parse_act(a) for a in acts], tail)
        tid = 900000 + len(cex_traces)
        cex_traces.setdefault(cfg.name, (cfg, [], {}))
        cex_traces[cfg.name][1].append(cl.mon_trace(tid, rec, cfg, True, ended))
        cex_traces[cfg.name][2][tid] = rec
    for name, (cfg, traces, recs) in cex_traces.items():
        V, E, r = cl.run_monitor(cfg, traces, label='cex')
        got = [f for f in V + E if any(x in all_labels or x.startswith(KNOWN_PREFIX) for x in f['f'])]
        if got:
            handle(got, cfg, recs, 'model counterexample replay')
        else:
            raise MachineryFailure(f'E1 counterexample for {name} ({[x[1].violated for x in cex if x[0].name == name]})'
                                   f' is not reproduced by the real code: the model misrepresents it')
        v.cov['traces_validated_against_impl'] += len(traces)

    # ---- E2 + E3a on model behaviours -----------------------------------------------------------------------
    for cfg in sim_cfgs:
        behs, r = cl.tlc_behaviours(cfg, n_beh, beh_depth, seed)
        traces, recs = [], {}
        for k, b in enumerate(behs):
            rec, drift, ended = cl.replay_and_settle(cfg, b, tail)
            if drift:
                v.drift.append(f'{cfg.name}: {drift}')
            traces.append(cl.mon_trace(k, rec, cfg, True, ended))
            recs[k] = rec
        V, E, r2 = cl.run_monitor(cfg, traces, label='beh')
        handle(V + E, cfg, recs, 'replayed model behaviour')
        v.cov['traces_validated_against_impl'] += len(traces)
        v.cov['evaluations'] += sum(len(t['steps']) for t in traces)
        if behs:
            v.sample({'cfg': cfg.name, 'model_behaviour': [s['a'] for s in behs[0]][:25]})
    # ---- E3a on independent random schedules ----------------------------------------------------------------
    for ci, cfg in enumerate(rnd_cfgs):
        traces, recs = [], {}
        for k in range(n_rnd):
            rec, ended = cl.random_run(cfg, seed * 100003 + ci * 1009 + k, rnd_steps, tail,
                                       p_delay=(0.1, 0.3, 0.5)[k % 3], inject=inject and k % 2 == 0)
            traces.append(cl.mon_trace(k, rec, cfg, True, ended))
            recs[k] = rec
        V, E, r2 = cl.run_monitor(cfg, traces, label='rnd')
        handle(V + E, cfg, recs, 'random schedule')
        v.cov['traces_validated_against_impl'] += len(traces)
        v.cov['evaluations'] += sum(len(t['steps']) for t in traces)
        if traces:
            v.sample({'cfg': cfg.name, 'random_schedule': recs[0].schedule[:25]})
    # ---- scenario drivers -----------------------------------------------------------------------------------
    for sc_fn in (extra_scenarios or []):
        for cfg, traces, recs in sc_fn(tier, seed, tail):
            V, E, r2 = cl.run_monitor(cfg, traces, label='scn')
            handle(V + E, cfg, recs, 'scenario')
            v.cov['traces_validated_against_impl'] += len(traces)
            v.cov['evaluations'] += sum(len(t['steps']) for t in traces)
    # verdicts produced by scenario families with their own monitor (sequencing runs of C16)
    import importlib
    mod = sys.modules.get(pid.lower())
    for sv, ntr, nst in getattr(mod, 'SEQ_RESULTS', []) if mod else []:
        v.violations += sv.violations
        for kf, val in sv.known_hits.items():
            v.known_hits[kf] = val
        v.cov['traces_validated_against_impl'] += ntr
        v.cov['evaluations'] += nst
        v.cov['sequencing_traces'] = ntr
        for key in ('quiescent_steps_evaluated', 'lost_process_obligations'):
            if key in sv.cov:
                v.cov[key] = v.cov.get(key, 0) + sv.cov[key]
    v.cov['distinct_nontrivial'] = v.cov['traces_validated_against_impl']
    v.cov['rule'] = ('E1: TLC exhausts Cluster.tla for each listed configuration within its bounds (rounds, fault '
                     'budgets, slow FIFO set); E2/E3a: each replayed model behaviour / seeded random schedule / '
                     'scenario is one implementation trace, checked step by step by TLC (ClusterMon) - distinct by '
                     'construction (different seeds / behaviours)')
    v.assumptions += ['SimCluster: threads, XML-RPC transport, fork/kill, clocks and host identity are simulated '
                      '(DESIGN.md 2.4); one scheduler step = one queued item of one proxy or one main-thread '
                      'callback',
                      'ticks are periodic: every live instance ticks once per round, in any order',
                      f'bounded liveness: terminal formulas are evaluated after {tail} fair quiet rounds']
    if notes:
        v.assumptions += notes
    v.cov['properties_formulas'] = sorted(all_labels)
    return v.finish()


def replay_file(path):
    """bin/check <ID> --replay FILE: re-execute the recorded schedule on the real code and print the outcome."""
    from recorder import Driver
    with open(path) as f:
        rep = json.load(f)['replay']
    c0 = rep['cfg']
    cfg = cl.Config(n=c0['n'], core=c0.get('core', ()), sync=c0.get('sync', ('STRICT',)),
                    auto_fence=c0.get('auto_fence', False), fail=c0.get('fail', 'CONTINUE'), t=c0.get('t', 2),
                    sync_ticks=c0.get('sync_ticks', 3))
    c = cl.make_cluster(cfg)
    d = Driver(c)
    try:
        d.replay([s for s in rep['schedule'] if s[0] != 'inject'])
        traces = [cl.mon_trace(0, d.rec, cfg, False, False)]
    finally:
        c.close()
    V, E, r = cl.run_monitor(cfg, traces, label='replay')
    for f in V + E:
        print('FAILED', f)
    print('final:', {n: (o['fsm'], o['master'], o['inst']) for n, o in d.rec.steps[-1]['st'].items()})
    return 1 if V or E else 0
