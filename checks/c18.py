"""C18 - rules and options resolve totally, in-domain, with documented precedence.

Rules.tla / Options.tla are definition-level specifications transcribed from the documentation. checks/c18.py
generates rules documents (exact names and overlapping plain-substring patterns at both levels, model chains with
cycles / missing models / duplicates, aliases referencing each other, sign identifiers, in- and out-of-domain values,
empty elements) and option dictionaries; TLC evaluates the specifications on them; every document is rendered to XML
and resolved by the REAL Parser / ProcessRules / ApplicationRules of a live instance, with lxml (XSD validation: only
accepted files are judged) and without it (well-formed files reach the loaders); options go through the real
SupvisorsOptions + check_options. '#' / '@' spreading is observed through get_process_rules on a booted cluster.
"""
import json
import os
import random
import sys

sys.path.insert(0, os.path.join(os.path.dirname(os.path.abspath(__file__)), '..', 'harness'))
import vlib
from vlib import MachineryFailure

PID = 'C18'
ATTRS = ['identifiers', 'start_sequence', 'stop_sequence', 'required', 'wait_exit', 'expected_loading',
         'starting_failure_strategy', 'running_failure_strategy']
APP_ATTRS = ['distribution', 'identifiers', 'start_sequence', 'stop_sequence', 'starting_strategy',
             'starting_failure_strategy', 'running_failure_strategy']
SEQ_VALUES = [None, None, '2', '0', '5', '-1', 'x', '130', '']
LOAD_VALUES = [None, None, '50', '0', '100', '101', '-1', 'x']
BOOL_VALUES = [None, None, 'true', 'false', '1', '0', 'yes', 'maybe', 'TRUE', 'off']
SFS_VALUES = [None, None, 'ABORT', 'CONTINUE', 'STOP', 'BOGUS', 'abort']
RFS_VALUES = [None, None, 'CONTINUE', 'RESTART_PROCESS', 'STOP_APPLICATION', 'RESTART_APPLICATION', 'SHUTDOWN', 'RESTART',
              'BOGUS']
IDS_VALUES = [None, None, 'n1,n2', 'n2', '*', '*,n1', '@,n1,n2', '#,n2,n3', '#', '@', '#,@,n1', 'al1', 'al2,n1',
              'n1,,n1,n3', 'al1,al2', '@,al2', '']
DIST_VALUES = [None, None, 'ALL_INSTANCES', 'SINGLE_INSTANCE', 'SINGLE_NODE', 'ANYWHERE']
STRAT_VALUES = [None, None, 'CONFIG', 'LESS_LOADED', 'MOST_LOADED_NODE', 'FASTEST']
APP_IDS_VALUES = [None, None, 'n1,n2', '*', 'al1', 'n3,al1', '']
VALUES = {'identifiers': IDS_VALUES, 'start_sequence': SEQ_VALUES, 'stop_sequence': SEQ_VALUES, 'required': BOOL_VALUES,
          'wait_exit': BOOL_VALUES, 'expected_loading': LOAD_VALUES, 'starting_failure_strategy': SFS_VALUES,
          'running_failure_strategy': RFS_VALUES, 'distribution': DIST_VALUES, 'starting_strategy': STRAT_VALUES}


def chars(s):
    return list(s)


def pat_abs(text):
    """Abstract form of a fixed-length pattern: optional ^, characters or '.', optional $."""
    s, e = text.startswith('^'), text.endswith('$')
    core = text[1 if s else 0:len(text) - (1 if e else 0)]
    return {'s': s, 'e': e, 'k': list(core)}


XSD_OK = {'start_sequence': ['2', '0', '5', '-1', '127', '-128'], 'stop_sequence': ['3', '0', '-1', '7'],
          'required': ['true', 'false', '1', '0'], 'wait_exit': ['true', 'false', '1', '0'],
          'expected_loading': ['50', '0', '100', '1'], 'starting_failure_strategy': ['ABORT', 'CONTINUE', 'STOP'],
          'running_failure_strategy': RFS_VALUES[2:8], 'distribution': DIST_VALUES[2:5], 'starting_strategy': STRAT_VALUES[2:5]}


def gen_attrs(rnd, names, dense=0.5, app=False, valid=False):
    out = {}
    for a in names:
        if rnd.random() < dense:
            vals = APP_IDS_VALUES if (app and a == 'identifiers') else VALUES[a]
            if valid and a in XSD_OK:
                vals = XSD_OK[a]
            out[a] = rnd.choice(vals)
        else:
            out[a] = None
    return out


def gen_doc(rnd, valid=False):
    doc = {'aliases': [], 'models': [], 'apps': []}
    al = rnd.choice([[], [['al1', 'n1,n2']], [['al1', 'n1,n2'], ['al2', 'al1,n3']], [['al2', 'al1,n3'], ['al1', 'n2']],
                     [['al1', 'n3'], ['al2', 'n1, al1 ,n2']]])
    doc['aliases'] = [list(x) for x in al]
    for name in rnd.sample(['m1', 'm2', 'm3', 'm1'], rnd.randrange(0, 5)):
        doc['models'].append({'key': name, 'ref': rnd.choice(['', '', 'm1', 'm2', 'm3', 'mx']),
                              'a': gen_attrs(rnd, ATTRS, valid=valid)})
    app_keys = rnd.sample([(False, 'abc'), (False, 'ab'), (True, 'a'), (True, 'b'), (True, 'bc'), (True, 'ab'),
                           (True, 'c'), (False, 'abc'), (True, 'bc'), (True, '^a'), (True, 'c$'), (True, '^.b'),
                           (True, '^abc$'), (True, 'b.')], rnd.randrange(1, 4))
    for pat, key in app_keys:
        progs = []
        for ppat, pkey in rnd.sample([(False, 'pq'), (False, 'pqr'), (False, 'q'), (True, 'p'), (True, 'q'), (True, 'qr'),
                                      (True, 'pq'), (True, 'r'), (True, 'pqr'), (False, 'pq'), (True, 'qr'),
                                      (True, '^p'), (True, '^pq$'), (True, 'q.'), (True, 'r$'), (True, '^.q'),
                                      (True, '^q'), (True, '.r$')],
                                     rnd.randrange(0, 5)):
            progs.append({'pat': ppat, 'key': pkey, 'ref': rnd.choice(['', '', 'm1', 'm2', 'm3', 'mx']),
                          'a': gen_attrs(rnd, ATTRS, valid=valid)})
        doc['apps'].append({'pat': pat, 'key': key, 'a': gen_attrs(rnd, APP_ATTRS, app=True, valid=valid),
                            'progs': progs})
    doc['qapp'] = rnd.choice(['abc', 'abc', 'ab', 'zz', 'xbcx'])
    doc['qproc'] = rnd.choice(['pq', 'pqr', 'q', 'xpqrx', 'zz', 'qr'])
    doc['ref'] = rnd.choice([['n1', 'n2', 'n3'], ['n2', 'n3'], ['n3'], []])
    return doc


def render(doc):
    x = ['<?xml version="1.0" encoding="UTF-8" standalone="no"?>', '<root>']
    for name, ids in doc['aliases']:
        x.append(f'<alias name="{name}">{ids}</alias>')

    def attrs(a):
        return ''.join(f'<{k}>{v}</{k}>' for k, v in a.items() if v is not None)
    for m in doc['models']:
        ref = f'<reference>{m["ref"]}</reference>' if m['ref'] else ''
        x.append(f'<model name="{m["key"]}">{ref}{attrs(m["a"])}</model>')
    for a in doc['apps']:
        x.append(f'<application {"pattern" if a["pat"] else "name"}="{a["key"]}">{attrs(a["a"])}<programs>')
        for p in a['progs']:
            ref = f'<reference>{p["ref"]}</reference>' if p['ref'] else ''
            x.append(f'<program {"pattern" if p["pat"] else "name"}="{p["key"]}">{ref}{attrs(p["a"])}</program>')
        x.append('</programs></application>')
    x.append('</root>')
    return '\n'.join(x)


def tok(name, text):
    """Abstract value of an element text for the specification."""
    if name == 'identifiers':
        if text is None:
            return {'s': False, 'ids': []}
        return {'s': bool(text), 'ids': [t.strip() for t in text.split(',')] if text else []}
    if text is None or text == '':
        return {'s': False, 'k': 'tok', 'v': 0, 't': ''}
    try:
        return {'s': True, 'k': 'int', 'v': int(text), 't': ''}
    except ValueError:
        pass
    if name in ('required', 'wait_exit'):
        return {'s': True, 'k': 'tok', 'v': 0, 't': text.lower()}
    if name in ('start_sequence', 'stop_sequence', 'expected_loading'):
        return {'s': True, 'k': 'junk', 'v': 0, 't': ''}
    return {'s': True, 'k': 'tok', 'v': 0, 't': text}


def abstract(doc):
    def attrs(a, names):
        return {n: tok(n, a.get(n)) for n in names}
    return {'aliases': [{'name': n, 'ids': [t.strip() for t in ids.split(',')]} for n, ids in doc['aliases']],
            'models': [{'key': chars(m['key']), 'ref': chars(m['ref']), 'a': attrs(m['a'], ATTRS)} for m in doc['models']],
            'apps': [{'pat': a['pat'], 'key': pat_abs(a['key']) if a['pat'] else chars(a['key']),
                      'a': attrs(a['a'], APP_ATTRS),
                      'progs': [{'pat': p['pat'], 'key': pat_abs(p['key']) if p['pat'] else chars(p['key']),
                                 'ref': chars(p['ref']),
                                 'a': attrs(p['a'], ATTRS)} for p in a['progs']]} for a in doc['apps']],
            'qapp': chars(doc['qapp']), 'qproc': chars(doc['qproc']), 'ref': doc['ref']}


class NoLxml:
    """The environment without lxml (Parser then falls back to ElementTree: no XSD validation)."""

    def __enter__(self):
        self.saved = {k: sys.modules.get(k) for k in ('lxml', 'lxml.etree')}
        sys.modules['lxml'] = None
        sys.modules['lxml.etree'] = None

    def __exit__(self, *a):
        for k, v in self.saved.items():
            if v is None:
                sys.modules.pop(k, None)
            else:
                sys.modules[k] = v


def resolve_real(supvisors, path, qapp, qproc, plain):
    """Returns ('refused', text) / ('error', text) / ('ok', prog_rules, app_rules)."""
    from supvisors.sparser import Parser
    from supvisors.process import ProcessRules
    from supvisors.application import ApplicationRules
    import io
    import supvisors.sparser as sparser_mod
    saved = supvisors.options.rules_files
    saved_err = sparser_mod.stderr
    sparser_mod.stderr = io.StringIO()        # (the XSD error log of refused files is printed there)
    supvisors.options.rules_files = [path]
    try:
        try:
            if plain:
                with NoLxml():
                    parser = Parser(supvisors)
            else:
                parser = Parser(supvisors)
        except ValueError as exc:
            return ('refused', str(exc)[:100])
        except Exception as exc:
            return ('refused', f'{type(exc).__name__}: {exc}'[:160])
        try:
            pr = ProcessRules(supvisors)
            parser.load_program_rules(f'{qapp}:{qproc}', pr)
            ar = ApplicationRules(supvisors)
            parser.load_application_rules(qapp, ar)
        except Exception as exc:
            import traceback
            return ('error', traceback.format_exc(limit=4)[-500:])
        prog = {'ids': list(pr.identifiers), 'at': list(pr.at_identifiers), 'hash': list(pr.hash_identifiers),
                'start': pr.start_sequence, 'stop': pr.stop_sequence, 'req': bool(pr.required),
                'wexit': bool(pr.wait_exit), 'load': pr.expected_load, 'sfs': pr.starting_failure_strategy.name,
                'rfs': pr.running_failure_strategy.name}
        app = {'managed': bool(ar.managed), 'dist': ar.distribution.name, 'ids': list(ar.identifiers),
               'start': ar.start_sequence, 'stop': ar.stop_sequence, 'strat': ar.starting_strategy.name,
               'sfs': ar.starting_failure_strategy.name, 'rfs': ar.running_failure_strategy.name}
        return ('ok', prog, app)
    finally:
        supvisors.options.rules_files = saved
        sparser_mod.stderr = saved_err


# ---------------------------------------------------------------------------------------------------------------
# options

OPT_INT = {'synchro_timeout': ['15', '1200', '14', '1201', '60', 'x', '-3', ''], 'inactivity_ticks': ['2', '720', '1', '721', '9', 'x'],
           'stats_histo': ['10', '1500', '9', '1501', '300', 'many'], 'stats_collecting_period': ['1', '3600', '0', '3601', '7'],
           'multicast_ttl': ['0', '255', '-1', '256', '3', 'far'], 'event_port': ['1', '65535', '0', '65536', '60002', 'http']}
OPT_ENUM = {'conciliation_strategy': ['SENICIDE', 'infanticide', 'User', 'STOP', 'RESTART', 'RUNNING_FAILURE', 'KILL', ''],
            'starting_strategy': ['CONFIG', 'less_loaded', 'MOST_LOADED', 'LOCAL', 'LESS_LOADED_NODE', 'MOST_LOADED_NODE',
                                  'FASTEST'],
            'supvisors_failure_strategy': ['CONTINUE', 'resync', 'RESTART', 'SHUTDOWN', 'PANIC']}
OPT_SYNC = ['STRICT', 'LIST', 'TIMEOUT', 'CORE', 'USER', 'strict,timeout', 'CORE', 'CORE,USER', 'STRICT,CORE', 'LIST,LIST',
            'TIMEOUT,BOGUS', '', 'CORE,STRICT', 'user,core', ',TIMEOUT,']
OPT_BOOL = ['true', 'false', 'on', 'off', 'YES', '0', '1', 'maybe', '']
OPT_PERIODS = ['10', '5,60,600', '600,5', '1,2,3,4', '0,10', '3601', '', 'x,10', '5.0,7']


def gen_opts(rnd):
    o = {}
    for k, vals in list(OPT_INT.items()) + list(OPT_ENUM.items()):
        if rnd.random() < 0.6:
            o[k] = rnd.choice(vals)
    if rnd.random() < 0.8:
        o['synchro_options'] = rnd.choice(OPT_SYNC)
    if rnd.random() < 0.5:
        o['auto_fence'] = rnd.choice(OPT_BOOL)
    if rnd.random() < 0.5:
        o['stats_periods'] = rnd.choice(OPT_PERIODS)
    o['_core'] = rnd.random() < 0.5
    o['_list'] = rnd.choice([True, True, False, 'blank', 'commas'])
    return o


def abstract_opts(o):
    def one(text, upper=True):
        if text is None:
            return {'s': False, 'k': 'tok', 'v': 0, 't': ''}
        try:
            return {'s': True, 'k': 'int', 'v': int(text), 't': ''}
        except ValueError:
            pass
        try:
            f = float(text)
            if f == int(f):
                return {'s': True, 'k': 'int', 'v': int(f), 't': ''}
        except ValueError:
            pass
        return {'s': True, 'k': 'tok' if text.strip() else 'junk', 'v': 0, 't': text.strip().upper() if upper else text}

    def lst(text):
        if text is None:
            return {'s': False, 'l': []}
        return {'s': True, 'l': [one(t.strip()) for t in text.split(',') if t.strip()]}
    out = {k: one(o.get(k)) for k in list(OPT_INT) + list(OPT_ENUM) + ['auto_fence']}
    # an int option given as an empty string is junk (not an integer)
    for k in OPT_INT:
        if o.get(k) == '':
            out[k] = {'s': True, 'k': 'junk', 'v': 0, 't': ''}
    out['synchro_options'] = lst(o.get('synchro_options'))
    out['stats_periods'] = lst(o.get('stats_periods'))
    out['has_core'] = o['_core']
    out['has_list'] = o['_list'] is True          # (present but blank = an empty list)
    return out


def effective_real(supervisord, logger, o):
    from supvisors.options import SupvisorsOptions
    from supvisors.ttypes import SynchronizationOptions
    # (the class-level default list is mutated by check_options: restored for every evaluation)
    SupvisorsOptions.SYNCHRO_DEFAULT_OPTIONS = [SynchronizationOptions.STRICT, SynchronizationOptions.TIMEOUT,
                                                SynchronizationOptions.CORE]
    cfg = {k: v for k, v in o.items() if not k.startswith('_')}
    if o['_core']:
        cfg['core_identifiers'] = 'n1,n2'
    if o['_list'] is True:
        cfg['supvisors_list'] = 'n1,n2,n3'
    elif o['_list'] == 'blank':
        cfg['supvisors_list'] = ''
    elif o['_list'] == 'commas':
        cfg['supvisors_list'] = ' , ,'
    try:
        opt = SupvisorsOptions(supervisord, logger, **cfg)      # (the constructor ends with check_options)
    except ValueError as exc:
        if 'synchro_options shall not be empty' in str(exc):
            return {'refused': True}
        import traceback
        return {'error': traceback.format_exc(limit=3)[-400:]}
    except Exception as exc:
        import traceback
        return {'error': traceback.format_exc(limit=3)[-400:]}
    return {'refused': False, 'synchro_options': [x.name for x in opt.synchro_options],
            'supvisors_failure_strategy': opt.supvisors_failure_strategy.name, 'auto_fence': bool(opt.auto_fence),
            'synchro_timeout': opt.synchro_timeout, 'inactivity_ticks': opt.inactivity_ticks,
            'conciliation_strategy': opt.conciliation_strategy.name, 'starting_strategy': opt.starting_strategy.name,
            'stats_histo': opt.stats_histo, 'stats_collecting_period': int(opt.collecting_period),
            'multicast_ttl': opt.multicast_ttl, 'event_port': opt.event_port,
            'stats_periods': [int(x) for x in opt.stats_periods], 'stats_periods_n': len(opt.stats_periods)}


# ---------------------------------------------------------------------------------------------------------------
# '#' / '@' on a booted cluster


def spread_cases(v):
    import clusterlib as cl
    from simcluster import Cluster
    n = 0
    for sign, ids, expect_ref in (('@', 'n2,n3', ['n2', 'n3']), ('#', 'n2,n3', ['n2', 'n3']), ('@', '', ['n1', 'n2', 'n3']),
                                  ('#', '', ['n1', 'n2', 'n3']), ('#', 'n3', ['n3']), ('@', 'n3', ['n3']),
                                  ('#', 'n9,n2', ['n2']), ('@', '*,n2', ['n1', 'n2', 'n3'])):
        text = sign + (',' + ids if ids else '')
        rules = ('<?xml version="1.0" encoding="UTF-8" standalone="no"?><root><application name="hg"><programs>'
                 f'<program pattern="h"><identifiers>{text}</identifiers><start_sequence>1</start_sequence></program></programs>'
                 '</application></root>')
        cfg = cl.Config(n=3, sync=('LIST', 'TIMEOUT'))
        c = cl.make_cluster(cfg, programs=[{'name': 'h', 'groups': ['hg'], 'numprocs': 4}], rules_xml=rules)
        try:
            c.boot_all()
            for _ in range(9):
                c.round()
            # (the assignment is made when the application is first planned for a start)
            c.rpc('n1', 'start_application', 'CONFIG', 'hg', False)
            c.round()
            procs = sorted(ns for ns, _ in c.nodes['n1'].processes() if ns.startswith('hg:'))
            for k, ns in enumerate(procs):
                res = c.rpc('n1', 'get_process_rules', ns)
                if res[0] != 'ok':
                    raise MachineryFailure(f'C18 spread: get_process_rules({ns}) -> {res}')
                got = [c.nick(x) for x in res[1][0]['identifiers']]
                if sign == '@':
                    want = [expect_ref[k]] if k < len(expect_ref) else []
                else:
                    want = [expect_ref[k % len(expect_ref)]]
                n += 1
                if got != want:
                    v.violation(f"'{text}' on a homogeneous group of {len(procs)}: process #{k} ({ns}) resolves to {got}, "
                                f'documented {want} (Rules.tla Spread)', {'spread': text, 'k': k})
        finally:
            c.close()
    # a homogeneous group that grows (update_numprocs 2 -> 4) after a first assignment: the new processes continue
    # the spreading ('#', all instances)
    rules = ('<?xml version="1.0" encoding="UTF-8" standalone="no"?><root><application name="hg"><programs>'
             '<program pattern="h"><identifiers>#</identifiers><start_sequence>1</start_sequence></program></programs>'
             '</application></root>')
    cfg = cl.Config(n=3, sync=('LIST', 'TIMEOUT'))
    c = cl.make_cluster(cfg, programs=[{'name': 'h', 'groups': ['hg'], 'numprocs': 2}], rules_xml=rules)
    try:
        c.boot_all()
        for _ in range(9):
            c.round()
        c.rpc('n1', 'start_application', 'CONFIG', 'hg', False)
        for _ in range(3):
            c.round()
        for node in ('n1', 'n2', 'n3'):
            res = c.rpc(node, 'update_numprocs', 'h', 4, False)
            if res[0] != 'ok':
                raise MachineryFailure(f'C18 spread: update_numprocs on {node} -> {res}')
            for _ in range(2):
                c.round()
        c.rpc('n1', 'restart_application', 'CONFIG', 'hg', False)
        for _ in range(6):
            c.round()
            for nn, node in c.nodes.items():
                for ns, proc in list(node.processes()):
                    if proc.state == 40 and proc.pid:
                        c.proc_killed(nn, ns)
        procs = sorted(ns for ns, _ in c.nodes['n1'].processes() if ns.startswith('hg:'))
        if len(procs) != 4:
            raise MachineryFailure(f'C18 spread: {procs} after update_numprocs')
        ref = ['n1', 'n2', 'n3']
        for k, ns in enumerate(procs):
            res = c.rpc('n1', 'get_process_rules', ns)
            got = [c.nick(x) for x in res[1][0]['identifiers']] if res[0] == 'ok' else res
            n += 1
            if got != [ref[k % 3]]:
                v.violation(f"'#' on a homogeneous group grown from 2 to 4: process #{k} ({ns}) resolves to {got}, "
                            f'documented {[ref[k % 3]]} (Rules.tla Spread)', {'spread': 'grown', 'k': k})
    finally:
        c.close()
    return n


def main(tier, seed, replay=None):
    v = vlib.Verdict(PID, tier, seed)
    rnd = random.Random(seed * 104729 + 18)
    import clusterlib as cl
    n_docs = 4000 if tier == 'quick' else 60000
    n_opts = 3000 if tier == 'quick' else 40000
    docs = [gen_doc(rnd, valid=(k % 2 == 0)) for k in range(n_docs)]
    opts = [gen_opts(rnd) for _ in range(n_opts)]
    if replay:
        with open(replay) as f:
            rep = json.load(f)['replay']
        docs = [rep['doc']] if 'doc' in rep else []
        opts = [rep['opts']] if 'opts' in rep else []
    sc = vlib.scratch()
    # --- expected values computed by TLC ---------------------------------------------------------------------
    exp_docs, exp_opts = {}, {}
    if docs:
        path = os.path.join(sc, 'docs.json')
        with open(path, 'w') as f:
            json.dump([abstract(d) for d in docs], f)
        cfgp = os.path.join(sc, 'rules.cfg')
        open(cfgp, 'w').write('')
        r = vlib.run_tlc('Rules', cfgp, workers=1, env={'DOCS_FILE': path}, timeout=3000, heap='6g')
        if not r.ok:
            raise MachineryFailure(f'Rules.tla: {r.error_text[:2000]}')
        exp_docs = {x['i']: x for x in vlib.tlc_prints(r.stdout, 'R ')}
        if len(exp_docs) != len(docs):
            raise MachineryFailure(f'Rules.tla evaluated {len(exp_docs)} documents out of {len(docs)}')
        v.cov['tlc_runs'].append({'name': 'Rules.tla evaluator', 'documents': len(docs), 'wall_s': round(r.wall, 1)})
    if opts:
        path = os.path.join(sc, 'opts.json')
        with open(path, 'w') as f:
            json.dump([abstract_opts(o) for o in opts], f)
        cfgp = os.path.join(sc, 'options.cfg')
        open(cfgp, 'w').write('')
        r = vlib.run_tlc('Options', cfgp, workers=1, env={'OPTS_FILE': path}, timeout=3000, heap='6g')
        if not r.ok:
            raise MachineryFailure(f'Options.tla: {r.error_text[:2000]}')
        exp_opts = {x['i']: x['e'] for x in vlib.tlc_prints(r.stdout, 'O ')}
        if len(exp_opts) != len(opts):
            raise MachineryFailure(f'Options.tla evaluated {len(exp_opts)} dictionaries out of {len(opts)}')
        v.cov['tlc_runs'].append({'name': 'Options.tla evaluator', 'dictionaries': len(opts), 'wall_s': round(r.wall, 1)})
    v.cov['states'] = len(docs) + len(opts)
    v.cov['transitions'] = len(docs) + len(opts)
    # --- the real code ---------------------------------------------------------------------------------------
    cfg = cl.Config(n=1, sync=('TIMEOUT',))
    c = cl.make_cluster(cfg)
    n_eval, refused = 0, {'xsd': 0, 'plain': 0}
    seen = set()
    try:
        c.boot_all()
        node = c.nodes['n1']
        if True:
            gone = False
            for i, d in enumerate(docs, 1):
                if gone:
                    break
                path = os.path.join(sc, 'rules_doc.xml')
                with open(path, 'w') as f:
                    f.write(render(d))
                e = exp_docs[i]
                for mode in ('xsd', 'plain'):
                    with c.enter('n1'):          # (one watchdog period per resolution, not for the whole loop)
                        res = resolve_real(node.supvisors, path, d['qapp'], d['qproc'], mode == 'plain')
                    if c.hung:
                        v.violation(f'rule lookup did not terminate ({mode}) for {d["qapp"]}:{d["qproc"]}',
                                    {'doc': d, 'mode': mode})
                        gone = True          # the instance is gone: report what was found
                        break
                    n_eval += 1
                    if res[0] == 'refused':
                        refused[mode] += 1
                        if mode == 'plain':
                            v.violation(f'well-formed document refused without XSD validation: {res[1]}',
                                        {'doc': d, 'mode': mode})
                        continue
                    if res[0] == 'error':
                        v.violation(f'rule lookup raised ({mode}) for {d["qapp"]}:{d["qproc"]}: {res[1]}',
                                    {'doc': d, 'mode': mode})
                        continue
                    _, prog, app = res
                    if prog not in e['prog']:
                        key = ('prog', json.dumps(prog, sort_keys=True), json.dumps(e['prog'], sort_keys=True))
                        if key not in seen:
                            seen.add(key)
                            v.violation(f'program rules of {d["qapp"]}:{d["qproc"]} ({mode}): code {prog}, '
                                        f'specification admits {e["prog"]}; document:\\n{render(d)[:1500]}',
                                        {'doc': d, 'mode': mode})
                    if app not in e['app']:
                        key = ('app', json.dumps(app, sort_keys=True), json.dumps(e['app'], sort_keys=True))
                        if key not in seen:
                            seen.add(key)
                            v.violation(f'application rules of {d["qapp"]} ({mode}): code {app}, specification admits '
                                        f'{e["app"]}; document:\\n{render(d)[:1500]}', {'doc': d, 'mode': mode})
            for i, o in enumerate(opts, 1):
                if gone:
                    break
                with c.enter('n1'):
                    got = effective_real(node.supervisord, node.logger, o)
                n_eval += 1
                want = exp_opts[i]
                if 'error' in got:
                    v.violation(f'option conversion raised for {o}: {got["error"]}', {'opts': o})
                elif got != want:
                    diff = {k: (got.get(k), want.get(k)) for k in set(got) | set(want) if got.get(k) != want.get(k)}
                    key = ('opt', json.dumps(sorted(diff), sort_keys=True), json.dumps(diff, sort_keys=True, default=str))
                    if key not in seen:
                        seen.add(key)
                        v.violation(f'effective options for {o}: (code, documented) differ on {diff}', {'opts': o})
    finally:
        c.close()
    if not replay:
        n_eval += spread_cases(v)
    v.cov['evaluations'] = n_eval
    v.cov['traces_validated_against_impl'] = n_eval
    v.cov['refused_by_xsd'] = refused['xsd']
    v.cov['distinct_nontrivial'] = len({json.dumps(d, sort_keys=True) for d in docs}) + \
        len({json.dumps(o, sort_keys=True) for o in opts})
    if docs:
        v.sample({'document': render(docs[0])[:800], 'query': [docs[0]['qapp'], docs[0]['qproc']]})
    v.cov['rule'] = ('seeded documents / option dictionaries, distinct by content; each is resolved by the real code '
                     '(documents twice: with lxml + XSD and without) and by the TLA+ definition evaluated by TLC')
    v.assumptions += ['patterns are plain substrings (regular-expression operators are not generated); names over a '
                      '3-letter alphabet; one rules file', 'element texts are tokenised for the specification by the '
                      'harness (integers, lower-cased boolean tokens, raw enumeration names)',
                      'ties between equally long matching patterns: any of them is admitted']
    return v.finish()
