"""C16 - no event sequence makes an instance fail internally."""
import cluster_check as cc
import clusterlib as cl

LABELS = ['C16.NoInternalError']


def main(tier, seed, replay=None):
    if replay:
        return cc.replay_file(replay)
    q = tier == 'quick'
    e1 = [cl.Config(n=2, crash=1, restart=1, user=1, rounds=8),
          cl.Config(n=2, crash=1, restart=1, user=1, rounds=8, auto_fence=True, sync=('LIST', 'TIMEOUT')),
          cl.Config(n=3, crash=1, rounds=8, fail='RESYNC', sync=('LIST',)),
          cl.Config(n=2, slow=[(1, 1)], crash=1, restart=1, rounds=9)]
    if not q:
        e1 += [cl.Config(n=3, crash=1, restart=1, rounds=11),
               cl.Config(n=2, crash=1, restart=1, cut=1, user=1, rounds=10),
               cl.Config(n=2, slow=[(1, 2), (1, 1)], crash=1, restart=1, cut=1, rounds=10),
               cl.Config(n=3, cut=1, user=1, rounds=9, core=(1,), sync=('CORE', 'USER'))]
    allq2 = [(1, 2), (2, 1), (1, 1), (2, 2)]
    sim = [cl.Config(n=3, slow=[(1, 1), (2, 2), (3, 3)], crash=2, restart=2, cut=1, user=1),
           cl.Config(n=2, slow=allq2, crash=2, restart=2, cut=1, user=2, auto_fence=True, sync=('LIST', 'TIMEOUT'))]
    rnd = [cl.Config(n=3, crash=2, restart=2, cut=2, user=2),
           cl.Config(n=3, crash=2, restart=2, cut=1, user=2, auto_fence=True, sync=('LIST', 'TIMEOUT')),
           cl.Config(n=4, crash=2, restart=2, cut=2, user=1, core=(2, 3), sync=('CORE', 'USER'), fail='RESYNC'),
           cl.Config(n=3, crash=2, restart=2, mismatch=(2,), user=1, fail='SHUTDOWN')]
    return cc.run('C16', tier, seed, LABELS, [], e1, ['NoErr'], ['StepsC16'], sim, rnd,
                  n_beh=48 if q else 400, beh_depth=150, n_rnd=50 if q else 500, rnd_steps=300,
                  e1_timeout=600 if q else 2400, inject=True,
                  notes=['the object-level partial operations are covered by the other families: every check '
                         'records internal errors of its own runs (C11 err, C17 non-RPCError exceptions, ...)'])
