"""C16 - no event sequence makes an instance fail internally."""
import cluster_check as cc
import clusterlib as cl

LABELS = ['C16.NoInternalError']


def sequencing_runs(tier, seed, tail):
    """Every sequencing scenario (C03 / C09 / C10 families: failures, dropped events, unanswered requests on local and
    remote targets, lost instances, all triggers) is also a C16 run: judged here on NoInternalError only."""
    import json
    import random
    import vlib
    import seq_check as sk
    rnd = random.Random(seed * 7717 + 16)
    n = 150 if tier == 'quick' else 3000
    scs = [sk.gen_start_scenario(rnd, drops=True) for _ in range(n)] + [sk.gen_stop_scenario(rnd) for _ in range(n // 2)]
    v = vlib.Verdict('C16', tier, seed)
    allv, n_tr, n_st = sk.run_and_judge(v, scs, ['C16.NoInternalError'], [], tag='seq16')
    SEQ_RESULTS.append((v, n_tr, n_st))
    return []


SEQ_RESULTS = []


def conciliation_and_replica_runs(tier, seed, tail):
    """The conciliation scenarios (C05) and the process-activity runs under random schedulers (C12: joins, crashes,
    restarts, partitions while processes change state) are also C16 runs: judged here on NoInternalError only."""
    import random
    import vlib
    import c05
    import c12
    v = vlib.Verdict('C16', tier, seed)
    rnd = random.Random(seed * 6007 + 16)
    scs = c05.directed(tier)
    if tier == 'quick':
        scs = scs[::2]
    scs += [c05.gen_random(rnd) for _ in range(15 if tier == 'quick' else 600)]
    n_tr, n_st = 0, 0
    for lo in range(0, len(scs), 300):
        part = scs[lo:lo + 300]
        traces = c05.run_scenarios(part)
        c05.judge(v, traces, part, labels={'C16.NoInternalError'})
        n_tr += len(traces)
        n_st += sum(len(t['steps']) for t in traces)
    scs = [c12.gen_random(rnd, k) for k in range(30 if tier == 'quick' else 1200)]
    for lo in range(0, len(scs), 300):
        part = scs[lo:lo + 300]
        traces = c12.run_scenarios(part)
        c12.judge(v, traces, part, labels={'C16.NoInternalError'})
        n_tr += len(traces)
        n_st += sum(len(t['steps']) for t in traces)
    SEQ_RESULTS.append((v, n_tr, n_st))
    return []


def orders_after_master_loss(tier, seed, tail):
    """supvisors.restart / shutdown on a non-Master at every micro-step after the Master crashed (family of C02; it
    found F25: RuntimeError / ValueError out of the XML-RPC)."""
    import c02
    return c02.orders_after_master_loss(tier, seed, tail)


def user_sync_scenarios(tier, seed, tail):
    """USER synchronisation: end_sync with every form of the Master argument (none, nick, full identifier, unknown) on
    every instance, at different rounds."""
    from recorder import Driver
    out = []
    cfg = cl.Config(n=3, sync=('USER',))
    traces, recs = [], {}
    k = 0
    for rounds in (3, 5):
        for caller in ('n1', 'n2'):
            for arg in ([], ['n2'], ['n3'], ['10.0.0.2:60002'], ['n9']):
                c = cl.make_cluster(cfg)
                d = Driver(c)
                try:
                    for n in c.nodes:
                        d.boot(n)
                    for _ in range(rounds):
                        d.fair_round()
                    d.rpc(caller, 'end_sync', *arg)
                    if arg and arg[0] in c.nodes:
                        d.rec.steps[-1]['arg'] = arg[0]
                    elif arg and arg[0] in c.by_identifier:
                        d.rec.steps[-1]['arg'] = c.by_identifier[arg[0]]
                    cl.fair_tail(d, cfg, tail)
                finally:
                    c.close()
                traces.append(cl.mon_trace(k, d.rec, cfg, True, False))
                recs[k] = d.rec
                k += 1
    # end_sync (no argument, then a nick) at every micro-step of the start-up: the context is then often unstable
    # (instances CHECKING / CHECKED, different views)
    for arg in ([], ['n2']):
        for micro in range(0, 60, 4 if tier == 'quick' else 1):
            c = cl.make_cluster(cfg)
            d = Driver(c)
            try:
                for n in c.nodes:
                    d.boot(n)
                done = 0
                order = list(c.nodes)
                while done < micro:
                    pend = sorted(c.pending())
                    if pend:
                        d.proxy(*pend[0])
                    else:
                        d.tick(order[0])
                        order = order[1:] + order[:1]
                    done += 1
                d.rpc('n1', 'end_sync', *arg)
                if arg:
                    d.rec.steps[-1]['arg'] = arg[0]
                cl.fair_tail(d, cfg, tail)
            finally:
                c.close()
            traces.append(cl.mon_trace(k, d.rec, cfg, True, False))
            recs[k] = d.rec
            k += 1
    out.append((cfg, traces, recs))
    return out


def main(tier, seed, replay=None):
    if replay:
        return cc.replay_file(replay)
    q = tier == 'quick'
    e1 = [cl.Config(n=2, crash=1, restart=1, user=1, rounds=8),
          cl.Config(n=2, crash=1, restart=1, user=1, rounds=8, auto_fence=True, sync=('LIST', 'TIMEOUT')),
          cl.Config(n=3, crash=1, rounds=8, fail='RESYNC', sync=('LIST',)),
          cl.Config(n=3, crash=1, rounds=7, hold=True, sync=('TIMEOUT',)),
          cl.Config(n=2, slow=[(1, 1)], crash=1, restart=1, rounds=9)]
    if not q:
        e1 += [cl.Config(n=3, crash=1, restart=1, rounds=11),
               cl.Config(n=2, crash=1, restart=1, cut=1, user=1, rounds=10),
               cl.Config(n=2, slow=[(1, 2), (1, 1)], crash=1, restart=1, cut=1, rounds=10),
               cl.Config(n=3, cut=1, user=1, rounds=9, core=(1,), sync=('CORE', 'USER'))]
    allq2 = [(1, 2), (2, 1), (1, 1), (2, 2)]
    sim = [cl.Config(n=3, slow=[(1, 1), (2, 2), (3, 3)], crash=2, restart=2, cut=1, user=1),
           cl.Config(n=2, slow=allq2, crash=2, restart=2, cut=1, user=2, auto_fence=True, sync=('LIST', 'TIMEOUT'))]
    rnd = [cl.Config(n=3, crash=2, restart=2, cut=2, user=2),
           cl.Config(n=3, crash=2, restart=2, cut=1, user=2, auto_fence=True, sync=('LIST', 'TIMEOUT')),
           cl.Config(n=4, crash=2, restart=2, cut=2, user=1, core=(2, 3), sync=('CORE', 'USER'), fail='RESYNC'),
           cl.Config(n=3, crash=2, restart=2, mismatch=(2,), user=1, fail='SHUTDOWN')]
    return cc.run('C16', tier, seed, LABELS, [], e1, ['NoErr'], ['StepsC16'], sim, rnd,
                  n_beh=48 if q else 400, beh_depth=150, n_rnd=50 if q else 500, rnd_steps=300,
                  e1_timeout=600 if q else 1500, inject=True,
                  extra_scenarios=[user_sync_scenarios, sequencing_runs, cl.hold_distribution_scenarios,
                                   conciliation_and_replica_runs, orders_after_master_loss],
                  notes=['the object-level partial operations are covered by the other families: every check '
                         'records internal errors of its own runs (C11 err, C17 non-RPCError exceptions, ...)'])
