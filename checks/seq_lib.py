"""Sequencing scenarios (C03 / C09 / C10) on real cores.

A scenario = rules (applications / processes with start and stop sequences, wait_exit, required, starting failure
strategy, fixed target instance) + a trigger (automatic distribution, start_application, restart_application,
restart_sequence, stop_application, supvisors.restart / shutdown) + scripted process behaviours (normal, spawn error,
early exit, expected / unexpected exit, stuck STARTING, never stopping) + events dropped on their way to the
requester + loss of the target instance at a given round. It runs on a 2- or 3-instance SimCluster; every step
records the requests pushed, the true Supervisor process states of every instance, what the Master displays, the
jobs flags and the Supervisor orders received.
"""
import os
import sys

sys.path.insert(0, os.path.join(os.path.dirname(os.path.abspath(__file__)), '..', 'harness'))
from vlib import MachineryFailure

PSTATE = {0: 'STOPPED', 10: 'STARTING', 20: 'RUNNING', 30: 'BACKOFF', 40: 'STOPPING', 100: 'EXITED', 200: 'FATAL',
          1000: 'UNKNOWN'}


def rules_xml(sc):
    x = '<?xml version="1.0" encoding="UTF-8" standalone="no"?><root>'
    for a in sc['apps']:
        x += f'<application name="{a["name"]}"><start_sequence>{a["seq"]}</start_sequence>'
        if a.get('stopseq') is not None:
            x += f'<stop_sequence>{a["stopseq"]}</stop_sequence>'
        x += f'<starting_failure_strategy>{a.get("strategy", "ABORT")}</starting_failure_strategy><programs>'
        for p in a['procs']:
            x += (f'<program name="{p["name"]}"><identifiers>{p["target"]}</identifiers>'
                  f'<start_sequence>{p["seq"]}</start_sequence>')
            if p.get('stopseq') is not None:
                x += f'<stop_sequence>{p["stopseq"]}</stop_sequence>'
            if p.get('strategy'):
                x += f'<starting_failure_strategy>{p["strategy"]}</starting_failure_strategy>'
            if p.get('rfs'):
                x += f'<running_failure_strategy>{p["rfs"]}</running_failure_strategy>'
            x += (f'<required>{"true" if p.get("required") else "false"}</required>'
                  f'<wait_exit>{"true" if p.get("wait_exit") else "false"}</wait_exit></program>')
        x += '</programs></application>'
    return x + '</root>'


def programs(sc):
    out = []
    for a in sc['apps']:
        for p in a['procs']:
            beh = p.get('behaviour', 'normal')
            out.append({'name': p['name'], 'groups': [a['name']],
                        'startsecs': 100000 if beh == 'stuck' else p.get('startsecs', 1),
                        'stopwaitsecs': p.get('stopwaitsecs', 10), 'startretries': 1, 'exitcodes': '0'})
    return out


def proc_index(sc):
    idx = {}
    k = 0
    for a in sc['apps']:
        for p in a['procs']:
            k += 1
            idx[f'{a["name"]}:{p["name"]}'] = k
    return idx


class Scenario:
    def __init__(self, sc):
        import clusterlib as cl
        from recorder import Driver
        self.sc = sc
        n = sc.get('n', 2)
        cfg = cl.Config(n=n, sync=('LIST', 'TIMEOUT'))
        self.cfg = cfg
        from simcluster import Cluster
        layout = cfg.layout(programs(sc))
        # programs that an instance does not configure (no [program] section there)
        for node, ns in sc.get('absent', []):
            a, pn = ns.split(':')
            layout[node]['programs'] = [x for x in layout[node]['programs']
                                        if not (x['name'] == pn and a in x['groups'])]
        self.c = Cluster(layout, options=cfg.options(), rules_xml=rules_xml(sc))
        self.c.auto_orders = True
        self.d = Driver(self.c)
        self.idx = proc_index(sc)
        self.beh = {f'{a["name"]}:{p["name"]}': p.get('behaviour', 'normal') for a in sc['apps'] for p in a['procs']}
        self.done_beh = set()
        self.extra = []           # per recorded step: extra observation
        self.dropped = 0
        self.c.observers.append(self)
        self.exec_count = {}
        self._stamps = {}

    def close(self):
        self.c.close()

    # -- observation appended to each recorder step -------------------------------------------------------------
    def snapshot(self):
        c = self.c
        names = list(c.nodes)
        truth = []
        for ns, k in sorted(self.idx.items(), key=lambda x: x[1]):
            row = []
            for n in names:
                node = c.nodes[n]
                st = 'NONE'
                if node.alive:
                    try:
                        st = PSTATE.get(int(node.process(ns).state), 'UNKNOWN')
                        if st == 'EXITED':
                            st = 'EXITED_OK' if node.process(ns).exitstatus == 0 else 'EXITED_KO'
                    except KeyError:
                        st = 'NONE'
                row.append(st)
            truth.append(row)
        views = []
        stamps = []
        for n in names:
            node = c.nodes[n]
            row = []
            srow = []
            if node.alive:
                ctx = node.supvisors.context
                for ns, k in sorted(self.idx.items(), key=lambda x: x[1]):
                    a, p = ns.split(':')
                    try:
                        ps = ctx.applications[a].processes[p]
                        row.append(PSTATE.get(int(ps.displayed_state), 'UNKNOWN'))
                        # when the displayed information was last refreshed: a counter that moves whenever
                        # last_event_mtime does (several events inside one clock period only differ by nanoseconds)
                        key = (n, ns)
                        prev = self._stamps.get(key)
                        if prev is None or prev[0] != ps.last_event_mtime:
                            prev = (ps.last_event_mtime, (prev[1] + 1) if prev else 1)
                            self._stamps[key] = prev
                        srow.append(prev[1])
                    except KeyError:
                        row.append('NONE')
                        srow.append(0)
            else:
                row = ['NONE'] * len(self.idx)
                srow = [0] * len(self.idx)
            views.append(row)
            stamps.append(srow)
        return {'truth': truth, 'views': views, 'stamps': stamps}

    def sync(self):
        """One snapshot per recorded step (an action on a dead instance records nothing)."""
        while len(self.extra) < len(self.d.rec.steps):
            self.extra.append(self.snapshot())

    # -- scheduling ---------------------------------------------------------------------------------------------
    def deliver_all(self):
        """Drain every FIFO; process events listed in sc['drops'] are lost on their way to the requester."""
        c = self.c
        drops = self.sc.get('drops', [])
        guard = 0
        while guard < 5000:
            guard += 1
            pend = c.pending()
            if not pend:
                break
            def is_order(pr):
                q = c.proxies(pr[0]).get(pr[1])
                k0, (s0, b0) = q.queue.queue[0]
                return k0.name == 'REQUEST' and b0[0] in (3, 4)
            # the restart / shutdown order of an instance to its own Supervisor is served after everything else
            # (unless the scenario asks for the race with its last publications)
            pend.sort(key=lambda pr: ((is_order(pr) and not self.sc.get('race_order')), pr))
            src, dst = pend[0]
            p = c.proxies(src).get(dst)
            item = p.queue.queue[0]
            kind, (source, body) = item
            if kind.name == 'PUBLICATION' and body[0] == 1 and src != dst:
                ev = body[1]
                key = [f'{ev["group"]}:{ev["name"]}', PSTATE.get(int(ev['state']), str(ev['state']))]
                if key in drops and not ev.get('forced'):
                    p.queue.get_nowait()          # lost (harness-level loss of one publication)
                    self.dropped += 1
                    continue
            if kind.name == 'REQUEST' and body[0] == 1 and self.sc.get('lose_at_req') == body[1][0] \
                    and dst != src and c.nodes[dst].alive and not getattr(self, '_lost_at_req', False):
                # the target instance dies between the start request and its execution
                self._lost_at_req = True
                self.d.crash(dst)
                self.sync()
                continue
            if kind.name == 'REQUEST' and body[0] == 1 and self.beh.get(body[1][0]) == 'lostreq':
                p.queue.get_nowait()              # the start request never reaches the Supervisor
                continue
            self.d.proxy(src, dst)
            self.sync()

    def behave(self):
        """Scripted process behaviours, applied after the Supervisor transition pass of each round."""
        c = self.c
        for ns, beh in self.beh.items():
            for n, node in c.nodes.items():
                if not node.alive:
                    continue
                try:
                    proc = node.process(ns)
                except KeyError:
                    continue
                if beh == 'earlyexit' and proc.state == 10 and proc.pid:
                    self.d.env('exit', n, ns, 1)
                    self.sync()
                elif beh in ('exit0', 'exit1') and proc.state == 20 and proc.pid and (ns, n, proc.pid) not in self.done_beh:
                    self.done_beh.add((ns, n, proc.pid))
                    self.d.env('exit', n, ns, 0 if beh == 'exit0' else 1)
                    self.sync()
                elif proc.state == 40 and proc.pid and beh != 'neverstop':
                    self.d.env('killed', n, ns)
                    self.sync()

    def on_wire(self, rec):
        # spawn errors: armed when the start request is executed on the target
        if rec[1] == 'rpc' and rec[4] == 'supvisors.start_args':
            ns = rec[5][0]
            if self.beh.get(ns) == 'spawnerr':
                # the first spawn and the retry both fail
                self.c.nodes[rec[3]].spawn_errors.extend([True, True])

    def round(self):
        c = self.c
        for n in list(c.nodes):
            if c.nodes[n].alive:
                self.d.tick(n)
                self.sync()
                self.deliver_all()
        self.behave()
        self.deliver_all()

    def step_rpc(self, n, method, *args, ns='supvisors'):
        out = self.d.rpc(n, method, *args, ns=ns)
        self.sync()
        self.deliver_all()
        return out

    def run(self):
        sc, c, d = self.sc, self.c, self.d
        skew = sc.get('skew')
        if skew:
            # the Supervisors were not started together: tick counters differ between instances
            d.boot(skew[0])
            self.sync()
            for _ in range(skew[1]):
                self.round()
        for n in c.nodes:
            if not c.nodes[n].alive:
                d.boot(n)
                self.sync()
        trig = sc['trigger']
        pre = sc.get('pre_rounds', 7)
        lose = sc.get('lose')
        rounds = sc.get('rounds', 16)
        r = 0
        # bring the cluster up (automatic distribution happens on the way when applications have a start sequence)
        while r < pre:
            self.round()
            r += 1
            if lose and lose[1] == r and trig[0] == 'distribution':
                d.crash(lose[0])
                self.sync()
        if trig[0] != 'distribution':
            for pre_start in sc.get('pre_start', []):
                # processes started directly through Supervisor before the trigger (stop scenarios)
                self.step_rpc(pre_start[0], 'startProcess', pre_start[1], False, ns='supervisor')
            for _ in range(sc.get('settle_rounds', 3)):
                self.round()
            for call in sc.get('pre_calls', []):
                # user requests issued before the trigger: [instance, method, args, rounds to wait afterwards]
                self.step_rpc(call[0], call[1], *call[2])
                for _ in range(call[3]):
                    self.round()
            if sc.get('busy_start'):
                # a start sequence is in progress on the Master when the trigger arrives
                self.step_rpc(sc['busy_start'][0], 'start_application', 'CONFIG', sc['busy_start'][1], False)
                self.round()
            self.trigger_step = len(d.rec.steps)
            out = self.step_rpc(trig[1], trig[2], *trig[3])
            self.trigger_result = out
        else:
            self.trigger_step = 0
        for k in range(rounds):
            if lose and trig[0] != 'distribution' and lose[1] == k:
                d.crash(lose[0])
                self.sync()
            self.round()
        return self.to_trace()

    def to_trace(self):
        d, c = self.d, self.c
        names = list(c.nodes)
        if len(self.extra) != len(d.rec.steps):
            raise MachineryFailure(f'seq harness: {len(self.extra)} snapshots for {len(d.rec.steps)} steps')
        steps = []
        for st, ex in zip(d.rec.steps, self.extra):
            reqs = []
            for src, dst, typ, what, arg, iso in st['push']:
                if typ == 'R' and what in (1, 2) and arg in self.idx:
                    reqs.append(['START' if what == 1 else 'STOP', int(src[1]), int(dst[1]), self.idx[arg]])
            steps.append({'a': st['a'], 'n': int(st['n'][1]) if st['n'] else 0, 'user': bool(st.get('user')),
                          'reqs': reqs, 'truth': ex['truth'], 'views': ex['views'], 'stamps': ex['stamps'],
                          'jobs': [st['st'][n]['jobs'] for n in names],
                          'fsm': [st['st'][n]['fsm'] for n in names],
                          'master': [int(st['st'][n]['master'][1]) if st['st'][n]['master'] else 0 for n in names],
                          'alive': [bool(st['st'][n]['alive']) for n in names],
                          'orders': [[int(o[0][1]), o[1]] for o in st.get('orders', [])],
                          'err': bool(st['err']), 'errtxt': (st['err'][0][-300:] if st['err'] else '')})
        sc = self.sc
        procs = []
        for a in sc['apps']:
            for p in a['procs']:
                procs.append({'name': f'{a["name"]}:{p["name"]}', 'app': a['name'], 'seq': p['seq'],
                              'stopseq': p.get('stopseq') if p.get('stopseq') is not None else p['seq'],
                              'wait_exit': bool(p.get('wait_exit')), 'required': bool(p.get('required')) and p['seq'] > 0,
                              'target': int(p['target'][1]), 'startsecs': p.get('startsecs', 1),
                              'behaviour': p.get('behaviour', 'normal'),
                              'fstrategy': p.get('strategy') or a.get('strategy', 'ABORT')})
        apps = [{'name': a['name'], 'seq': a['seq'],
                 'stopseq': a.get('stopseq') if a.get('stopseq') is not None else a['seq'],
                 'strategy': a.get('strategy', 'ABORT')} for a in sc['apps']]
        trig = sc['trigger']
        return {'procs': procs, 'apps': apps, 'trigger': trig[0],
                'trigger_app': (trig[3][-2] if trig[0] in ('start_application', 'restart_application') else
                                (trig[3][0] if trig[0] == 'stop_application' else '')),
                'trigger_step': self.trigger_step, 'n': len(names), 'steps': steps,
                'race_order': bool(sc.get('race_order')), 'has_drops': bool(sc.get('drops')),
                'trigger_node': (int(trig[1][1]) if trig[0] != 'distribution' else 0),
                'wait_exit_forever': any(p.get('wait_exit') and (p.get('behaviour', 'normal') not in ('exit0', 'exit1')
                                                                 or [f'{a["name"]}:{p["name"]}', 'EXITED'] in sc.get('drops', []))
                                         for a in sc['apps'] for p in a['procs'])}
