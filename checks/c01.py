"""C01 - connected instances converge on one running Master (ElectionRule, MasterOnlyAuto, Convergence)."""
import cluster_check as cc
import clusterlib as cl

LABELS = ['C01.ElectionRule', 'C01.MasterOnlyAuto']
TERMINAL = ['C01.Convergence']


SEQ_RESULTS = []


def automatic_actions(tier, seed, tail):
    """'No instance starts, stops or conciliates anything automatically unless it is that Master': conciliation and
    sequencing scenarios on real cores, judged on the origin of every request (ConcilMon / SequencerMon)."""
    import random
    import vlib
    import c05
    import seq_check as sk
    v = vlib.Verdict('C01', tier, seed)
    scs = [s for s in c05.directed(tier) if s['strategy'] != 'USER']
    if tier == 'quick':
        scs = scs[::3]
    traces = c05.run_scenarios(scs)
    c05.judge(v, traces, scs, labels={'C01.MasterOnlyAuto'})
    n1, s1 = len(traces), sum(len(t['steps']) for t in traces)
    rnd = random.Random(seed)
    scs = [sk.gen_start_scenario(rnd) for _ in range(12 if tier == 'quick' else 150)]
    scs += [sk.gen_stop_scenario(rnd) for _ in range(12 if tier == 'quick' else 150)]
    traces = sk.run_scenarios(scs)
    sk.judge(v, traces, scs, ['C01.MasterOnlyAuto'], [], tag='seq01')
    SEQ_RESULTS.append((v, n1 + len(traces), s1 + sum(len(t['steps']) for t in traces)))
    return []


def oneway_scenarios(tier, seed, tail, only2=False):
    """One-way communication glitches: the messages of a towards b are lost for longer than the inactivity timeout
    while b's messages still reach a, for every ordered pair, every boot order (so that the Master is not always the
    lowest nick) and several glitch lengths; then everything flows again and the instances must agree."""
    import itertools
    from recorder import Driver
    out = []
    for n_inst, sync in ((3, ('LIST', 'TIMEOUT')), (3, ('STRICT',)), (2, ('TIMEOUT',)), (2, ('STRICT',))):
        if only2 and n_inst != 2:
            continue
        cfg = cl.Config(n=n_inst, sync=sync)
        traces, recs = [], {}
        k = 0
        if n_inst == 3:
            orders = [('n1', 'n2', 'n3'), ('n2', 'n3', 'n1'), ('n3', 'n2', 'n1')]
            lengths = (4, 7) if tier == 'quick' else (3, 4, 5, 7, 10)
        else:
            orders = [('n1', None, 'n2'), ('n2', None, 'n1')]
            lengths = (3, 4, 5, 8) if tier == 'quick' else (3, 4, 5, 6, 7, 8, 10)
        for order in orders:
            for a, b in itertools.permutations([f'n{i}' for i in range(1, n_inst + 1)], 2):
                for length, mode in itertools.product(lengths, ('lost', 'held')):
                    c = cl.make_cluster(cfg)
                    d = Driver(c)
                    try:
                        # late joiners: the first two instances settle before the third one boots
                        d.boot(order[0])
                        if order[1]:
                            d.boot(order[1])
                        for _ in range(8 if sync != ('STRICT',) or n_inst == 3 else 2):
                            d.fair_round()
                        d.boot(order[2])
                        for _ in range(7):
                            d.fair_round()
                        if mode == 'lost':
                            # the calls of a towards b fail (a notices, b does not)
                            d.cut(a, b)
                            for _ in range(length):
                                d.fair_round()
                        else:
                            # the proxy thread of a towards b is stuck: its items are delivered late, in order
                            for _ in range(length):
                                for n in c.nodes:
                                    d.tick(n)
                                    d.drain(only=lambda pr: pr != (a, b))
                        cl.fair_tail(d, cfg, tail)
                    finally:
                        c.close()
                    traces.append(cl.mon_trace(k, d.rec, cfg, True, False))
                    recs[k] = d.rec
                    k += 1
        out.append((cfg, traces, recs))
    return out


def main(tier, seed, replay=None):
    if replay:
        import json
        with open(replay) as f:
            rep = json.load(f)['replay']
        if 'scenario' in rep:
            import vlib
            v = vlib.Verdict('C01', tier, seed)
            if 'strategy' in rep['scenario']:
                import c05
                c05.judge(v, c05.run_scenarios([rep['scenario']]), [rep['scenario']], labels={'C01.MasterOnlyAuto'})
            else:
                import seq_check as sk
                sk.judge(v, sk.run_scenarios([rep['scenario']]), [rep['scenario']], ['C01.MasterOnlyAuto'], [])
            return v.finish()
        return cc.replay_file(replay)
    q = tier == 'quick'
    e1 = [cl.Config(n=2, slow=[(1, 2)], rounds=9, k=7),
          cl.Config(n=2, crash=1, restart=1, rounds=12),
          cl.Config(n=3, core=(2,), sync=('CORE', 'TIMEOUT'), rounds=10),
          cl.Config(n=2, sync=('USER',), user=1, rounds=10),
          cl.Config(n=3, sync=('LIST', 'TIMEOUT'), auto_fence=True, cut=1, rounds=6, k=5),
          cl.Config(n=2, cut=1, rounds=11, k=8, sync=('LIST', 'TIMEOUT'))]
    if not q:
        e1 += [cl.Config(n=2, slow=[(2, 1), (2, 2)], rounds=11),
               cl.Config(n=2, slow=[(1, 2)], rounds=11),
               cl.Config(n=3, sync=('LIST', 'TIMEOUT'), auto_fence=True, cut=1, rounds=8),
               cl.Config(n=3, crash=1, restart=1, rounds=12),
               cl.Config(n=2, crash=1, restart=1, slow=[(1, 2)], rounds=12),
               cl.Config(n=3, cut=1, rounds=12),
               cl.Config(n=3, core=(3,), sync=('STRICT', 'TIMEOUT', 'CORE'), crash=1, restart=1, rounds=10)]
    allq3 = [(i, j) for i in (1, 2, 3) for j in (1, 2, 3)]
    sim = [cl.Config(n=3, slow=[(1, 3), (2, 3), (3, 3)], crash=1, restart=1, cut=1),
           cl.Config(n=3, slow=[(3, 1), (3, 2)], core=(2,), sync=('CORE', 'TIMEOUT'), crash=1, restart=1)]
    rnd = [cl.Config(n=3, crash=1, restart=1, cut=2),
           cl.Config(n=3, crash=2, restart=2, core=(2,), sync=('CORE',), fail='RESYNC'),
           cl.Config(n=4, crash=1, restart=1, cut=1, sync=('LIST', 'TIMEOUT'))]
    if not q:
        sim += [cl.Config(n=3, slow=allq3, crash=1, restart=1, cut=1, sync=('LIST', 'TIMEOUT')),
                cl.Config(n=2, slow=[(1, 2), (2, 1), (1, 1), (2, 2)], crash=1, restart=1, sync=('USER',), user=2)]
        rnd += [cl.Config(n=3, crash=2, restart=2, cut=2, auto_fence=True, sync=('LIST', 'TIMEOUT')),
                cl.Config(n=2, crash=1, restart=1, user=2, sync=('USER',))]
    return cc.run('C01', tier, seed, LABELS, TERMINAL, e1, ['TerminalC01'], ['StepsC01'], sim, rnd,
                  n_beh=48 if q else 400, beh_depth=150, n_rnd=40 if q else 400, rnd_steps=250,
                  e1_timeout=600 if q else 1500, extra_scenarios=[automatic_actions, oneway_scenarios])
