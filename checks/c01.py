"""C01 - connected instances converge on one running Master (ElectionRule, MasterOnlyAuto, Convergence)."""
import cluster_check as cc
import clusterlib as cl

LABELS = ['C01.ElectionRule', 'C01.MasterOnlyAuto']
TERMINAL = ['C01.Convergence']


def main(tier, seed, replay=None):
    if replay:
        return cc.replay_file(replay)
    q = tier == 'quick'
    e1 = [cl.Config(n=2, slow=[(1, 2)], rounds=9, k=7),
          cl.Config(n=2, crash=1, restart=1, rounds=12),
          cl.Config(n=3, core=(2,), sync=('CORE', 'TIMEOUT'), rounds=10),
          cl.Config(n=2, sync=('USER',), user=1, rounds=10),
          cl.Config(n=3, sync=('LIST', 'TIMEOUT'), auto_fence=True, cut=1, rounds=6, k=5),
          cl.Config(n=2, cut=1, rounds=11, k=8, sync=('LIST', 'TIMEOUT'))]
    if not q:
        e1 += [cl.Config(n=2, slow=[(2, 1), (2, 2)], rounds=11),
               cl.Config(n=2, slow=[(1, 2)], rounds=11),
               cl.Config(n=3, sync=('LIST', 'TIMEOUT'), auto_fence=True, cut=1, rounds=8),
               cl.Config(n=3, crash=1, restart=1, rounds=12),
               cl.Config(n=2, crash=1, restart=1, slow=[(1, 2)], rounds=12),
               cl.Config(n=3, cut=1, rounds=12),
               cl.Config(n=3, core=(3,), sync=('STRICT', 'TIMEOUT', 'CORE'), crash=1, restart=1, rounds=10)]
    allq3 = [(i, j) for i in (1, 2, 3) for j in (1, 2, 3)]
    sim = [cl.Config(n=3, slow=[(1, 3), (2, 3), (3, 3)], crash=1, restart=1, cut=1),
           cl.Config(n=3, slow=[(3, 1), (3, 2)], core=(2,), sync=('CORE', 'TIMEOUT'), crash=1, restart=1)]
    rnd = [cl.Config(n=3, crash=1, restart=1, cut=2),
           cl.Config(n=3, crash=2, restart=2, core=(2,), sync=('CORE',), fail='RESYNC'),
           cl.Config(n=4, crash=1, restart=1, cut=1, sync=('LIST', 'TIMEOUT'))]
    if not q:
        sim += [cl.Config(n=3, slow=allq3, crash=1, restart=1, cut=1, sync=('LIST', 'TIMEOUT')),
                cl.Config(n=2, slow=[(1, 2), (2, 1), (1, 1), (2, 2)], crash=1, restart=1, sync=('USER',), user=2)]
        rnd += [cl.Config(n=3, crash=2, restart=2, cut=2, auto_fence=True, sync=('LIST', 'TIMEOUT')),
                cl.Config(n=2, crash=1, restart=1, user=2, sync=('USER',))]
    return cc.run('C01', tier, seed, LABELS, TERMINAL, e1, ['TerminalC01'], ['StepsC01'], sim, rnd,
                  n_beh=48 if q else 400, beh_depth=150, n_rnd=40 if q else 400, rnd_steps=250,
                  e1_timeout=600 if q else 2400)
