"""C06 - running failure strategies are applied once, by the Master, with precedence.

Object level  Failure.tla exhausted by TLC (all notification histories; Precedence / Exclusive / TriggerOK against
              the reference of the statement); EVERY transition of its state graph is executed on the REAL
              RunningFailureHandler of a live SimCluster node (job sets injected through its public attributes,
              Starter/Stopper entry points recorded) and the resulting sets / calls are compared with the model
              post-state AND re-checked by TLC against the reference (FailureMon).
End to end    instance lost at every round of scenario runs on real cores: only the Master emits requests, each
              strategy has its documented effect on the real Supervisors (scenario oracle in FailureE2E formulas of
              FailureMon.tla).
"""
import json
import os
import sys

sys.path.insert(0, os.path.join(os.path.dirname(os.path.abspath(__file__)), '..', 'harness'))
import vlib
from vlib import MachineryFailure

PID = 'C06'
NA, NP = 2, 2

RULES = '''<?xml version="1.0" encoding="UTF-8" standalone="no"?><root>
<application name="A1"><start_sequence>0</start_sequence><programs>
<program name="a1p1"><identifiers>*</identifiers><start_sequence>1</start_sequence></program>
<program name="a1p2"><identifiers>*</identifiers><start_sequence>0</start_sequence></program></programs></application>
<application name="A2"><start_sequence>0</start_sequence><programs>
<program name="a2p1"><identifiers>*</identifiers><start_sequence>1</start_sequence></program>
<program name="a2p2"><identifiers>*</identifiers><start_sequence>0</start_sequence></program></programs></application>
</root>'''


class Rec:
    """Stands for Starter / Stopper on the node: records the entry points the handler calls."""

    def __init__(self, names=()):
        self.calls = []
        self.names = set(names)

    def get_application_job_names(self):
        return set(self.names)

    def next(self):
        pass

    def stop_application(self, application, trigger=True):
        self.calls.append(['stop_app', int(application.application_name[1]), 0])

    def default_restart_application(self, application, trigger=True):
        self.calls.append(['restart_app', int(application.application_name[1]), 0])

    def default_restart_process(self, process, trigger=True):
        self.calls.append(['restart_proc', int(process.application_name[1]), int(process.process_name[3])])


class Replayer:
    def __init__(self):
        from simcluster import Cluster
        progs = [{'name': f'a{a}p{k}', 'groups': [f'A{a}']} for a in (1, 2) for k in (1, 2)]
        layout = {f'n{i}': {'host': i, 'port': 60000 + i, 'programs': progs} for i in (1, 2)}
        self.c = Cluster(layout, options={'synchro_options': 'STRICT'}, rules_xml=RULES)
        self.c.boot_all()
        for _ in range(8):
            self.c.round()
        if self.c.fsm_state('n1') != 'OPERATION':
            raise MachineryFailure('C06 harness: no OPERATION')
        self.s = self.c.nodes['n1'].supvisors
        self.h = self.s.failure_handler
        self.apps = {a: self.s.context.applications[f'A{a}'] for a in (1, 2)}
        self.procs = {(a, k): self.apps[a].processes[f'a{a}p{k}'] for a in (1, 2) for k in (1, 2)}
        for a, app in self.apps.items():
            seq = {p.process_name for p in app.get_start_sequenced_processes()}
            if seq != {f'a{a}p1'}:
                raise MachineryFailure(f'C06 harness: unexpected sequenced processes {seq}')
        self.real_starter, self.real_stopper = self.s.starter, self.s.stopper

    def close(self):
        self.c.close()

    def set_state(self, pre):
        from supvisors.ttypes import ApplicationStates
        j = pre['j']
        self.h.stop_application_jobs = {self.apps[a] for a in j['sa']}
        self.h.restart_application_jobs = {self.apps[a] for a in j['ra']}
        self.h.restart_process_jobs = {self.procs[tuple(p)] for p in j['rp']}
        self.h.continue_process_jobs = {self.procs[tuple(p)] for p in j['cp']}
        for a in (1, 2):
            self.apps[a]._state = ApplicationStates.STOPPED if pre['stopped'][a - 1] else ApplicationStates.RUNNING
        self.rec_starter = Rec([f'A{a}' for a in pre['busy']])
        self.rec_stopper = Rec()
        self.s.starter, self.s.stopper = self.rec_starter, self.rec_stopper

    def restore(self):
        self.s.starter, self.s.stopper = self.real_starter, self.real_stopper

    def apply(self, op):
        from supvisors.ttypes import RunningFailureStrategies as RFS
        err = ''
        try:
            with self.c.enter('n1'):
                if op['o'] == 'AddJob':
                    self.h.add_job(RFS[op['s']], self.procs[(op['a'], op['k'])])
                elif op['o'] == 'AddDefault':
                    p = self.procs[(op['a'], op['k'])]
                    saved = p.rules.running_failure_strategy
                    p.rules.running_failure_strategy = RFS[op['s']]
                    try:
                        self.h.add_default_job(p)
                    finally:
                        p.rules.running_failure_strategy = saved
                elif op['o'] == 'Abort':
                    self.h.abort()
                elif op['o'] == 'Trigger':
                    self.h.trigger_jobs()
        except Exception as exc:
            err = repr(exc)
        return err

    def observe(self):
        def an(x):
            return int(x.application_name[1])
        return {'sa': sorted(an(a) for a in self.h.stop_application_jobs),
                'ra': sorted(an(a) for a in self.h.restart_application_jobs),
                'rp': sorted([an(p), int(p.process_name[3])] for p in self.h.restart_process_jobs),
                'cp': sorted([an(p), int(p.process_name[3])] for p in self.h.continue_process_jobs)}


def norm_j(j):
    return {'sa': sorted(j['sa']), 'ra': sorted(j['ra']), 'rp': sorted(list(p) for p in j['rp']),
            'cp': sorted(list(p) for p in j['cp'])}


def object_level(v, tier, seed):
    sc = vlib.scratch()
    cfg = os.path.join(sc, 'failure.cfg')
    with open(cfg, 'w') as f:
        f.write(f'SPECIFICATION Spec\nCONSTANTS NA = {NA}\n NP = {NP}\nVIEW View\nINVARIANT Precedence\n'
                'INVARIANT Exclusive\nINVARIANT TriggerOK\n')
    r = vlib.run_tlc('Failure', cfg, timeout=900, coverage=True)
    v.add_tlc('Failure exhaustive', r)
    if not r.ok and not r.violated:
        raise MachineryFailure(f'Failure.tla: {r.error_text[:2000]}')
    if r.violated:
        v.notes.append(f'model violates {r.violated}')
    cfg2 = os.path.join(sc, 'failure_log.cfg')
    with open(cfg2, 'w') as f:
        f.write(f'SPECIFICATION Spec\nCONSTANTS NA = {NA}\n NP = {NP}\nVIEW View\nACTION_CONSTRAINT LogStep\n')
    r2 = vlib.run_tlc('Failure', cfg2, workers=1, timeout=1800)
    if not r2.ok:
        raise MachineryFailure(f'Failure.tla log run: {r2.error_text[:2000]}')
    trans = [t for t in vlib.tlc_prints(r2.stdout, 'T ') if t['op']['o'] != 'Env']
    rp = Replayer()
    recs = []
    try:
        for t in trans:
            rp.set_state(t['pre'])
            err = rp.apply(t['op'])
            obs = rp.observe()
            calls = sorted(rp.rec_stopper.calls + rp.rec_starter.calls)
            recs.append({'pre': t['pre'], 'op': t['op'], 'obs': obs, 'calls': calls, 'err': err})
            exp = norm_j(t['post']['j'])
            if obs != exp or calls != sorted(list(x) for x in t['out']):
                v.drift.append(f'op={t["op"]} pre={t["pre"]["j"]} model={exp}/{sorted(t["out"])} code={obs}/{calls}')
        rp.restore()
    finally:
        rp.close()
    # E3a: TLC re-checks the recorded real outcomes against the reference
    uniq = {}
    for rc in recs:
        uniq.setdefault(json.dumps(rc, sort_keys=True), rc)
    ul = list(uniq.values())
    path = os.path.join(sc, 'failure_recs.json')
    with open(path, 'w') as f:
        json.dump(ul, f)
    cfgm = os.path.join(sc, 'failuremon.cfg')
    with open(cfgm, 'w') as f:
        f.write(f'CONSTANTS NA = {NA}\n NP = {NP}\n')
    rm = vlib.run_tlc('FailureMon', cfgm, workers=1, env={'RECS_FILE': path}, timeout=1800, heap='8g')
    if not rm.ok:
        raise MachineryFailure(f'FailureMon: {rm.error_text[:2000]}')
    ns = [l for l in rm.stdout.splitlines() if l.startswith('"N ')]
    if not ns or int(json.loads(ns[0])[2:]) != len(ul):
        raise MachineryFailure('FailureMon did not read all records')
    for bad in vlib.tlc_prints(rm.stdout, 'V '):
        rc = ul[bad['i'] - 1]
        v.violation(f'handler: {sorted(bad["failed"])} op={rc["op"]} pre={rc["pre"]} -> sets={rc["obs"]} '
                    f'calls={rc["calls"]} err={rc["err"]}', {'level': 'object', 'pre': rc['pre'], 'op': rc['op']})
    v.cov['traces_validated_against_impl'] += len(ul)
    v.cov['evaluations'] += len(recs)
    v.cov['object_transitions_replayed'] = len(recs)
    v.sample({'pre': recs[len(recs) // 3]['pre'], 'op': recs[len(recs) // 3]['op'], 'obs': recs[len(recs) // 3]['obs'],
              'calls': recs[len(recs) // 3]['calls']})


def main(tier, seed, replay=None):
    v = vlib.Verdict(PID, tier, seed)
    if replay:
        with open(replay) as f:
            rep = json.load(f)['replay']
        if rep.get('level') == 'object':
            rp = Replayer()
            try:
                rp.set_state(rep['pre'])
                print('err:', rp.apply(rep['op']), 'sets:', rp.observe(), 'calls:',
                      rp.rec_stopper.calls + rp.rec_starter.calls)
                rp.restore()
            finally:
                rp.close()
            return 0
        import c06_e2e
        return c06_e2e.replay(rep)
    object_level(v, tier, seed)
    import c06_e2e
    c06_e2e.run(v, tier, seed)
    v.cov['exhaustive'] = True
    v.cov['distinct_nontrivial'] = v.cov['traces_validated_against_impl']
    v.cov['rule'] = ('object level: every (state, operation) transition of Failure.tla except environment changes, '
                     'distinct by construction; end to end: one trace per (strategy, placement, loss instant) scenario')
    v.assumptions += ['object level: the four job sets are injected through the public attributes of the real '
                      'handler; application.stopped() is set through ApplicationStatus._state; Starter/Stopper entry '
                      'points are recorded, get_application_job_names is answered by the recorder (busy set)',
                      'end to end: SimCluster (DESIGN.md 2.4)']
    return v.finish()
