"""Shared driver of C04 / C14: sampled placement situations realised on real cores, judged by TLC (PlacementMon)."""
import json
import os
import sys

sys.path.insert(0, os.path.join(os.path.dirname(os.path.abspath(__file__)), '..', 'harness'))
import vlib
import placement_lib as pl
from vlib import MachineryFailure


def definition_selfcheck(v):
    sc = vlib.scratch()
    cfg = os.path.join(sc, 'pdef.cfg')
    open(cfg, 'w').write('')
    r = vlib.run_tlc('PlacementDef', cfg, workers=1, timeout=900)
    if not r.ok:
        raise MachineryFailure(f'PlacementDef: {r.error_text[:2000]}')
    ns = [l for l in r.stdout.splitlines() if l.startswith('"N ')]
    n = int(json.loads(ns[0])[2:]) if ns else 0
    v.cov['states'] += n
    v.cov['transitions'] += n
    v.cov['tlc_runs'].append({'name': 'PlacementDef (definition checked over its full small space)', 'situations': n,
                              'wall_s': round(r.wall, 1)})


def collect(seed, count, downs=((), ('n2',), ('n3',), ('restart:n2',))):
    recs = []
    per = max(1, count // len(downs))
    for di, down in enumerate(downs):
        rest = tuple(x.split(':')[1] for x in down if x.startswith('restart:'))
        pc = pl.PlacementCluster(down=tuple(x for x in down if not x.startswith('restart:')), restarted=rest)
        try:
            for s in pl.sample_situations(seed * 31 + di, per):
                pc.set_loads(s['loads'])
                tgt = f"tgt{s['k']}_{s['r']}_{s['L']}_{s['p']}"
                if s['disabled']:
                    pc.set_disabled(s['disabled'], tgt, True)
                method = 'start_application' if (s['p'] or s['k'] % 2 == 0) else 'start_process'
                rec = pc.decide(s['k'], s['r'], s['L'], s['p'], s['strategy'], method=method)
                rec['_sit'] = dict(s, down=list(down), method=method)
                recs.append(rec)
                pc.stop_all_targets()
                if s['disabled']:
                    pc.set_disabled(s['disabled'], tgt, False)
        finally:
            pc.close()
    return recs


def judge(v, recs, labels, module='PlacementMon', tag='placement'):
    sc = vlib.scratch()
    path = os.path.join(sc, f'{tag}_recs.json')
    with open(path, 'w') as f:
        json.dump([{k: x for k, x in r.items() if not k.startswith('_')} for r in recs], f)
    cfg = os.path.join(sc, f'{tag}mon.cfg')
    open(cfg, 'w').write('')
    rm = vlib.run_tlc(module, cfg, workers=1, env={'RECS_FILE': path}, timeout=1800, heap='4g')
    if not rm.ok:
        raise MachineryFailure(f'{module}: {rm.error_text[:2000]}')
    ns = [l for l in rm.stdout.splitlines() if l.startswith('"N ')]
    if not ns or int(json.loads(ns[0])[2:]) != len(recs):
        raise MachineryFailure(f'{module} did not read all records')
    for bad in vlib.tlc_prints(rm.stdout, 'V '):
        r = recs[bad['i'] - 1]
        mine = [x for x in bad['failed'] if x in labels or x == 'NoErr']
        if mine:
            v.classify({'failed': sorted(mine)[0]},
                       f'{mine}: situation {({k: x for k, x in r.items() if not k.startswith("_")})} realised from '
                       f'{r.get("_sit")}', {'failed': mine, 'sit': r.get('_sit'), 'rec': {k: x for k, x in r.items()
                                                                                        if not k.startswith('_')}})
    v.cov['traces_validated_against_impl'] += len(recs)
    v.cov['evaluations'] += len(recs)


def nontrivial(recs):
    """distinct situations in which at least two instances compete or nobody is eligible"""
    seen = set()
    for r in recs:
        seen.add(json.dumps({k: x for k, x in r.items() if not k.startswith('_')}, sort_keys=True))
    return len(seen)
