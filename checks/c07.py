"""C07 - silent instances are detected in bounded time, live ones never declared lost."""
import cluster_check as cc
import clusterlib as cl

LABELS = ['C07.InstanceGraph', 'C07.LocalIsolated', 'C07.Accuracy', 'C07.Fence', 'C07.Completeness',
          'C07.ViewConsistent']


SEQ_RESULTS = []


def lost_processes(tier, seed, tail):
    """'every process it was running being reported FATAL and no longer counted as running there': runs with process
    activity (C12 machinery: ReplicaMon) - instances lost with and without auto_fence while processes run on them,
    after other instances joined or restarted (their records are fresher) - judged on C07.LostProcessFatal."""
    import random
    import vlib
    import c12
    v = vlib.Verdict('C07', tier, seed)
    rnd = random.Random(seed * 4099 + 7)
    scs = c12.fenced_loss(tier)
    for fence in (False, True):
        for sched in ('canonical', 5):
            # B restarts (or joins late) after the process was started on A: B's record is the freshest; then A is lost
            scs.append({'strategy': 'USER', 'sched': sched, 'steps': 140, 'late': {}, 'auto_fence': fence,
                        'events': [[10, 'start', 'n2', 'app:d1'], [30, 'restart', 'n3'], [80, 'crash', 'n2']]})
            scs.append({'strategy': 'USER', 'sched': sched, 'steps': 140, 'late': {'n3': 40}, 'auto_fence': fence,
                        'events': [[10, 'start', 'n2', 'app:d1'], [12, 'start', 'n2', 'unm:u1'], [120, 'crash', 'n2']]})
            # a copy ran and was stopped on B in between (B's STOPPED record is the freshest); then A is lost
            scs.append({'strategy': 'USER', 'sched': sched, 'steps': 140, 'late': {}, 'auto_fence': fence,
                        'events': [[10, 'start', 'n2', 'app:d1'], [14, 'start', 'n3', 'app:d1'],
                                   [40, 'stop', 'n3', 'app:d1'], [90, 'crash', 'n2']]})
    for k in range(20 if tier == 'quick' else 600):
        sc = c12.gen_random(rnd, k)
        sc['events'].append([rnd.randrange(60, 140), 'crash', rnd.choice(['n2', 'n3'])])
        scs.append(sc)
    n_tr, n_st = 0, 0
    for lo in range(0, len(scs), 300):
        part = scs[lo:lo + 300]
        traces = c12.run_scenarios(part)
        c12.judge(v, traces, part, labels={'C07.LostProcessFatal'})
        n_tr += len(traces)
        n_st += sum(len(t['steps']) for t in traces)
    SEQ_RESULTS.append((v, n_tr, n_st))
    return []


def main(tier, seed, replay=None):
    if replay:
        import json
        with open(replay) as f:
            rep = json.load(f)['replay']
        if 'scenario' in rep:
            import vlib
            import c12
            v = vlib.Verdict('C07', tier, seed)
            c12.judge(v, c12.run_scenarios([rep['scenario']]), [rep['scenario']], labels={'C07.LostProcessFatal'})
            return v.finish()
        return cc.replay_file(replay)
    q = tier == 'quick'
    e1 = [cl.Config(n=2, crash=1, restart=1, cut=1, rounds=9),
          cl.Config(n=3, crash=1, rounds=7, hold=True, sync=('TIMEOUT',)),
          cl.Config(n=2, crash=1, restart=1, cut=1, rounds=9, t=3, auto_fence=True, sync=('LIST', 'TIMEOUT')),
          cl.Config(n=3, crash=1, rounds=8, auto_fence=True, sync=('LIST', 'TIMEOUT'))]
    if not q:
        e1 += [cl.Config(n=3, crash=1, restart=1, rounds=11, t=3),
               cl.Config(n=3, crash=1, restart=1, rounds=7, hold=True, sync=('TIMEOUT',)),
               cl.Config(n=2, slow=[(1, 2)], crash=1, rounds=9),
               cl.Config(n=2, crash=1, restart=1, cut=1, rounds=11),
               cl.Config(n=3, cut=1, rounds=11, auto_fence=True, sync=('LIST', 'TIMEOUT')),
               cl.Config(n=2, slow=[(1, 2), (2, 1)], crash=1, restart=1, rounds=10)]
    sim = [cl.Config(n=3, slow=[(1, 3), (2, 3)], crash=1, restart=1, cut=1, auto_fence=True,
                     sync=('LIST', 'TIMEOUT')),
           cl.Config(n=3, slow=[(3, 1), (3, 3)], crash=2, restart=2, t=3)]
    rnd = [cl.Config(n=3, crash=2, restart=2, cut=1),
           cl.Config(n=3, crash=2, restart=2, cut=2, auto_fence=True, sync=('LIST', 'TIMEOUT'), t=3),
           cl.Config(n=4, crash=2, restart=2, cut=1, sync=('LIST', 'TIMEOUT'))]
    if not q:
        rnd += [cl.Config(n=2, crash=2, restart=2, cut=2, t=4)]
    return cc.run('C07', tier, seed, LABELS, [], e1, [], ['StepsC07'], sim, rnd,
                  n_beh=48 if q else 400, beh_depth=150, n_rnd=40 if q else 400, rnd_steps=250,
                  e1_timeout=600 if q else 1500, inject=False,
                  extra_scenarios=[cl.hold_distribution_scenarios, cl.stealth_restart_scenarios, lost_processes],
                  notes=['the process part of C07 (processes of a lost instance become FATAL) is decided with C11 '
                         '(Invalidate) and C12'])
