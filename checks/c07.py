"""C07 - silent instances are detected in bounded time, live ones never declared lost."""
import cluster_check as cc
import clusterlib as cl

LABELS = ['C07.InstanceGraph', 'C07.LocalIsolated', 'C07.Accuracy', 'C07.Fence', 'C07.Completeness',
          'C07.ViewConsistent']


def main(tier, seed, replay=None):
    if replay:
        return cc.replay_file(replay)
    q = tier == 'quick'
    e1 = [cl.Config(n=2, crash=1, restart=1, cut=1, rounds=9),
          cl.Config(n=3, crash=1, rounds=7, hold=True, sync=('TIMEOUT',)),
          cl.Config(n=2, crash=1, restart=1, cut=1, rounds=9, t=3, auto_fence=True, sync=('LIST', 'TIMEOUT')),
          cl.Config(n=3, crash=1, rounds=8, auto_fence=True, sync=('LIST', 'TIMEOUT'))]
    if not q:
        e1 += [cl.Config(n=3, crash=1, restart=1, rounds=11, t=3),
               cl.Config(n=3, crash=1, restart=1, rounds=7, hold=True, sync=('TIMEOUT',)),
               cl.Config(n=2, slow=[(1, 2)], crash=1, rounds=9),
               cl.Config(n=2, crash=1, restart=1, cut=1, rounds=11),
               cl.Config(n=3, cut=1, rounds=11, auto_fence=True, sync=('LIST', 'TIMEOUT')),
               cl.Config(n=2, slow=[(1, 2), (2, 1)], crash=1, restart=1, rounds=10)]
    sim = [cl.Config(n=3, slow=[(1, 3), (2, 3)], crash=1, restart=1, cut=1, auto_fence=True,
                     sync=('LIST', 'TIMEOUT')),
           cl.Config(n=3, slow=[(3, 1), (3, 3)], crash=2, restart=2, t=3)]
    rnd = [cl.Config(n=3, crash=2, restart=2, cut=1),
           cl.Config(n=3, crash=2, restart=2, cut=2, auto_fence=True, sync=('LIST', 'TIMEOUT'), t=3),
           cl.Config(n=4, crash=2, restart=2, cut=1, sync=('LIST', 'TIMEOUT'))]
    if not q:
        rnd += [cl.Config(n=2, crash=2, restart=2, cut=2, t=4)]
    return cc.run('C07', tier, seed, LABELS, [], e1, [], ['StepsC07'], sim, rnd,
                  n_beh=48 if q else 400, beh_depth=150, n_rnd=40 if q else 400, rnd_steps=250,
                  e1_timeout=600 if q else 1500, inject=False,
                  extra_scenarios=[cl.hold_distribution_scenarios],
                  notes=['the process part of C07 (processes of a lost instance become FATAL) is decided with C11 '
                         '(Invalidate) and C12'])
