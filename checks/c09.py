"""C09 - stop sequences are honoured; restart/shutdown is orderly and reaches everyone.

Seeded scenarios on 3 real instances: rules with stop_sequence at both levels (defaults inherited from
start_sequence), processes placed on any instance, stop behaviours prompt / never stopping, loss of a non-Master
during the ending phase; triggers stop_application, restart_application, supvisors.restart / shutdown issued on any
instance. TLC (SequencerMon) judges StopOrder, AppStopOrder, StopWhereRunning, OrderAfterStop and OrderOnce.
"""
import json
import os
import random
import sys

sys.path.insert(0, os.path.join(os.path.dirname(os.path.abspath(__file__)), '..', 'harness'))
import vlib
import seq_check as sk

LABELS = ['C09.StopOrder', 'C09.AppStopOrder', 'C09.StopWhereRunning', 'C09.OrderAfterStop']
TERMINAL = ['C09.OrderOnce']


def main(tier, seed, replay=None):
    v = vlib.Verdict('C09', tier, seed)
    if replay:
        with open(replay) as f:
            scs = [json.load(f)['replay']['scenario']]
    else:
        rnd = random.Random(seed * 9973 + 9)
        scs = []
        for _ in range(300 if tier == 'quick' else 5000):
            sc = sk.gen_stop_scenario(rnd)
            sc['drops'] = []
            scs.append(sc)
        # the input of known finding F19, always part of the run: nothing to stop, shutdown / restart issued on a
        # non-Master, the Master serves its own order before its last publications have left
        for kind in ('shutdown', 'restart'):
            scs.append({'apps': [{'name': 'A', 'seq': 0, 'procs': [{'name': 'p1', 'seq': 1, 'target': 'n2',
                                                                   'behaviour': 'normal', 'stopwaitsecs': 5}]}],
                        'trigger': (kind, 'n2', kind, []), 'drops': [], 'rounds': 20, 'n': 3, 'pre_start': [],
                        'settle_rounds': 3, 'race_order': True})
    sk.model_check(v, tier)
    allv, _, _ = sk.run_and_judge(v, scs, LABELS, TERMINAL)
    if replay:
        print(allv)
    v.sample({'scenario': scs[0]})
    v.cov['distinct_nontrivial'] = len({json.dumps(s, sort_keys=True) for s in scs})
    v.cov['rule'] = 'seeded stop / restart / shutdown scenarios, distinct by content'
    v.assumptions += ['a Supervisor that receives its restart / shutdown order stops (and is not rebooted)',
                      'processes are started directly through Supervisor before the trigger']
    return v.finish()
