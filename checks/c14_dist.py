"""C14 - SINGLE_INSTANCE / SINGLE_NODE distribution: whole-application placement on real cores."""
import json
import os
import random

import vlib
import placement_lib as pl
from vlib import MachineryFailure

APPRULES = ['*', 'n3,n2', 'n2,n1']
# knows matrices: program index (1: sa, 2: sb, 3: sc) -> instances
KNOWS = {'all': {'sa': '111', 'sb': '111', 'sc': '111'},
         'no3': {'sa': '110', 'sb': '110', 'sc': '111'},
         'het': {'sa': '101', 'sb': '011', 'sc': '111'}}


def layout_rules():
    progs = {n: [] for n in pl.NODES}
    xml = ''
    apps = []
    for dist in ('SINGLE_INSTANCE', 'SINGLE_NODE'):
        for ri, rule in enumerate(APPRULES):
            for kn, matrix in KNOWS.items():
                a = f'{"SI" if dist == "SINGLE_INSTANCE" else "SN"}{ri}{kn}'
                apps.append((a, dist, rule, kn))
                xml += (f'<application name="{a}"><distribution>{dist}</distribution><identifiers>{rule}</identifiers>'
                        '<start_sequence>0</start_sequence><programs>')
                for prog, seq in (('sa', 1), ('sb', 2), ('sc', 0)):
                    name = f'{prog}{a}'
                    # the program rule (n1 only) must be replaced by the application's
                    xml += (f'<program name="{name}"><identifiers>n1</identifiers><start_sequence>{seq}'
                            '</start_sequence><expected_loading>30</expected_loading></program>')
                    for idx, n in enumerate(pl.NODES):
                        if matrix[prog][idx] == '1':
                            progs[n].append({'name': name, 'groups': [a]})
                xml += '</programs></application>'
    load_xml = '<application name="loadapp"><start_sequence>0</start_sequence><programs>'
    for n in pl.NODES:
        load_xml += (f'<program name="ld40{n}"><identifiers>{n}</identifiers><expected_loading>40</expected_loading>'
                     f'</program><program name="ld30{n}"><identifiers>{n}</identifiers><expected_loading>30'
                     '</expected_loading></program>')
        progs[n] += [{'name': f'ld40{n}', 'groups': ['loadapp']}, {'name': f'ld30{n}', 'groups': ['loadapp']}]
    load_xml += '</programs></application>'
    rules = '<?xml version="1.0" encoding="UTF-8" standalone="no"?><root>' + xml + load_xml + '</root>'
    layout = {n: {'host': h, 'port': p, 'programs': progs[n]} for n, (h, p) in pl.NODES.items()}
    return layout, rules, apps


def run(v, tier, seed):
    from simcluster import Cluster
    layout, rules, apps = layout_rules()
    rnd = random.Random(seed)
    recs = []
    for down in ((), ('n3',)):
        pc = pl.PlacementCluster.__new__(pl.PlacementCluster)
        pc.c = Cluster(layout, options={'synchro_options': 'LIST,TIMEOUT', 'synchro_timeout': '15'}, rules_xml=rules)
        pc.c.boot_all()
        for _ in range(8):
            pc.c.round()
        for n in down:
            pc.c.crash(n)
        for _ in range(6):
            pc.c.round()
        pc.down, pc.disabled = set(down), {}
        if pc.c.fsm_state('n1') != 'OPERATION':
            raise MachineryFailure('C14 dist harness: no OPERATION')
        try:
            c = pc.c
            todo = [(a, s, None) for a in apps for s in pl.STRATS]
            rnd.shuffle(todo)
            if tier == 'quick':
                todo = todo[:60]
            # directed: the application rule lists only ONE instance of node A (n2), every program is known
            # everywhere, node A is the better node and n1 (not allowed) the better instance of it
            if not down:
                for a in apps:
                    if a[3] == 'all' and a[2] == 'n3,n2':
                        for s in ('LESS_LOADED', 'LESS_LOADED_NODE', 'MOST_LOADED', 'MOST_LOADED_NODE'):
                            less = s.startswith('LESS')
                            todo.insert(0, (a, s, {'n1': 0 if less else 40, 'n2': 30 if less else 0,
                                                   'n3': 70 if less else 0}))
            for (a, dist, rule, kn), strategy, fixed in todo:
                loads = fixed or {n: rnd.choice([0, 0, 30, 40, 70]) for n in pl.NODES}
                pc.set_loads(loads)
                infos = {c.nick(i['identifier']): i for i in c.call('n1', 'get_all_instances_info')}
                names = list(pl.NODES)
                rec = {'dist': dist, 'strategy': strategy, 'n': 3, 'node': [pl.NODE_ID[n] for n in names],
                       'running': [infos[n]['statename'] == 'RUNNING' for n in names],
                       'load': [int(infos[n]['loading']) for n in names],
                       'allowed': [int(x[1]) for x in (names if rule == '*' else rule.split(','))],
                       'knows': [[KNOWS[kn][p][i] == '1' and c.nodes[names[i]].alive for i in range(3)]
                                 for p in ('sa', 'sb', 'sc')],
                       'seq': [1, 2], 'total': 60, 'targets': [], 'err': ''}
                mark = len(c.wirelog)
                c.errors = []
                res = c.rpc('n1', 'start_application', strategy, a, False)
                for _ in range(5):
                    pc.rounds(1)
                errs = c.errors
                c.errors = []
                for w in c.wirelog[mark:]:
                    if w[1] == 'push_req' and w[4] == 1:
                        prog = w[5][0].split(':')[1][:2]
                        rec['targets'].append([{'sa': 1, 'sb': 2, 'sc': 3}[prog], int(w[3][1])])
                if errs or res[0] == 'error':
                    rec['err'] = (errs[0]['exc'][-200:] if errs else str(res))
                rec['_sit'] = {'app': a, 'strategy': strategy, 'loads': loads, 'down': list(down), 'res': str(res)[:80]}
                recs.append(rec)
                pc.stop_all_targets()
        finally:
            pc.close()
    sc = vlib.scratch()
    path = os.path.join(sc, 'dist_recs.json')
    with open(path, 'w') as f:
        json.dump([{k: x for k, x in r.items() if not k.startswith('_')} for r in recs], f)
    cfg = os.path.join(sc, 'distmon.cfg')
    open(cfg, 'w').write('')
    rm = vlib.run_tlc('PlacementDistMon', cfg, workers=1, env={'RECS_FILE': path}, timeout=900)
    if not rm.ok:
        raise MachineryFailure(f'PlacementDistMon: {rm.error_text[:2000]}')
    ns = [l for l in rm.stdout.splitlines() if l.startswith('"N ')]
    if not ns or int(json.loads(ns[0])[2:]) != len(recs):
        raise MachineryFailure('PlacementDistMon did not read all records')
    for bad in vlib.tlc_prints(rm.stdout, 'V '):
        r = recs[bad['i'] - 1]
        v.violation(f'{sorted(bad["failed"])}: {({k: x for k, x in r.items() if not k.startswith("_")})} from {r["_sit"]}',
                    {'failed': sorted(bad['failed']), 'sit': r['_sit']})
    listed = {f['id']: f for f in vlib.known_for('C14')}
    for hit in vlib.tlc_prints(rm.stdout, 'K '):
        r = recs[hit['i'] - 1]
        for fid in hit['known']:
            if fid in listed:
                v.known(fid, listed[fid]['what'])
            else:
                v.violation(f'signature {fid} (not a listed finding): {r["_sit"]} targets={r["targets"]} err={r["err"]}',
                            {'failed': [fid], 'sit': r['_sit']})
    v.cov['traces_validated_against_impl'] += len(recs)
    v.cov['evaluations'] += len(recs)
    v.cov['distribution_scenarios'] = len(recs)
    if recs:
        v.sample({k: x for k, x in recs[3].items()})
