"""C05 - Conflicts are detected and conciliated exactly as the strategy says.

E1: Concil.tla (design model of the OPERATION / CONCILIATION loop with the six strategies) exhausted by TLC.
E2: the skeletons of its behaviours (ConcilH.tla: user starts + phase of the Master) are replayed on a real
    3-instance cluster and the copies left are compared with the outcomes the design admits (DRIFT when different).
E3: every recorded run - skeletons, directed scenarios (partition healing, new conflict during conciliation, copies
    dying or never stopping, user resolution) and seeded random scripts - is judged by TLC with ConcilMon.tla, whose
    StopSets / CopiesLeft definitions are the ones of the design model (ConcilDef.tla).
"""
import json
import os
import random
import sys

sys.path.insert(0, os.path.join(os.path.dirname(os.path.abspath(__file__)), '..', 'harness'))
import vlib
import concil_lib as cl5
from vlib import MachineryFailure

PID = 'C05'
STRATS = ['SENICIDE', 'INFANTICIDE', 'USER', 'STOP', 'RESTART', 'RUNNING_FAILURE']
LABELS = {'C05.Detect', 'C05.OnlyManagedConflicts', 'C05.LeaveOnlyWhenClean', 'C05.UnmanagedNever', 'C05.UserNothing',
          'C05.NeverNonConflicting', 'C05.StopsInConciliation', 'C05.ExactStops', 'C05.Leaves', 'C05.UserStays',
          'C05.CopiesLeft', 'C05.RestartOne', 'C01.MasterOnlyAuto', 'C16.NoInternalError'}
MODEL_CONSTS = ('CONSTANTS P = {"app:d1", "app:d2", "unm:u1"}\n Managed = {"app:d1", "app:d2"}\n I = {1, 2, 3}\n'
                ' Strategy = "%s"\n MaxStarts = %d\n')


def model_check(v, tier):
    sc = vlib.scratch()
    for strat in ['SENICIDE', 'INFANTICIDE', 'STOP', 'RESTART', 'USER']:
        ms = 3 if (strat == 'RESTART' or tier == 'quick') else 4
        cfg = os.path.join(sc, f'concil_{strat}.cfg')
        with open(cfg, 'w') as f:
            f.write('SPECIFICATION Spec\n' + MODEL_CONSTS % (strat, ms) +
                    'INVARIANT TypeOK\nINVARIANT ExactStops\nINVARIANT UnmanagedNever\nINVARIANT UserNothing\n'
                    'INVARIANT KeepsOne\nINVARIANT ConcilJustified\nPROPERTY Leaves\nPROPERTY UserStays\n')
        r = vlib.run_tlc('Concil', cfg, timeout=900)
        v.add_tlc(f'Concil {strat} MaxStarts={ms}', r)
        if not r.ok:
            if r.violated:
                v.violation(f'design model Concil.tla ({strat}) violates {r.violated}', {'model': strat})
            else:
                raise MachineryFailure(f'Concil.tla: {r.error_text[:2000]}')


def skeletons(v, strat, tier, rnd):
    sc = vlib.scratch()
    cfg = os.path.join(sc, f'concilh_{strat}.cfg')
    with open(cfg, 'w') as f:
        f.write('SPECIFICATION SpecH\n' + MODEL_CONSTS % ('STOP' if strat == 'RUNNING_FAILURE' else strat, 3) +
                'INVARIANT SimLog\n')
    r = vlib.run_tlc('ConcilH', cfg, timeout=900)
    if not r.ok:
        raise MachineryFailure(f'ConcilH.tla: {r.error_text[:2000]}')
    v.add_tlc(f'ConcilH {strat}', r)
    outs = {}
    for b in vlib.tlc_prints(r.stdout, 'B '):
        key = json.dumps(b['h'], sort_keys=True)
        outs.setdefault(key, []).append(b)
    # only the skeletons where a managed process is duplicated are worth a run
    keys = []
    for key in sorted(outs):
        h = json.loads(key)
        cnt = {}
        for e in h:
            cnt[e['p']] = cnt.get(e['p'], 0) + 1
        if any(c > 1 for p, c in cnt.items()):
            keys.append(key)
    rnd.shuffle(keys)
    take = keys[:(14 if tier == 'quick' else 150)]
    return [(json.loads(k), outs[k]) for k in take]


def directed(tier):
    out = []
    for strat in STRATS:
        base = {'strategy': strat, 'rounds': 22}
        # two then three copies, a non-conflicting process and an unmanaged duplicate around
        out.append(dict(base, script=[[0, 'start', 'n2', 'app:d1'], [1, 'start', 'n1', 'app:e1'],
                                      [3, 'start', 'n3', 'app:d1'], [3, 'start', 'n3', 'unm:u1'],
                                      [4, 'start', 'n2', 'unm:u1']]))
        out.append(dict(base, script=[[0, 'start', 'n3', 'app:d1'], [2, 'start', 'n1', 'app:d1'],
                                      [4, 'start', 'n2', 'app:d1'], [0, 'start', 'n2', 'app:e1']]))
        # two simultaneous conflicts
        out.append(dict(base, script=[[0, 'start', 'n2', 'app:d1'], [0, 'start', 'n1', 'app:d2'],
                                      [3, 'start', 'n3', 'app:d1'], [3, 'start', 'n2', 'app:d2']], burst=True))
        # a new conflict while the conciliation is in progress
        out.append(dict(base, script=[[0, 'start', 'n2', 'app:d1'], [3, 'start', 'n3', 'app:d1'],
                                      [0, 'start', 'n1', 'app:d2'],
                                      [3, 'when', 'conciliating', 'start', 'n3', 'app:d2']], rounds=26))
        out.append(dict(base, script=[[0, 'start', 'n2', 'app:d1'], [3, 'start', 'n3', 'app:d1'],
                                      [3, 'when', 'conciliating', 'start', 'n1', 'app:d1']], rounds=26))
        # a copy dies by itself during the conciliation
        out.append(dict(base, script=[[0, 'start', 'n2', 'app:d1'], [3, 'start', 'n3', 'app:d1'],
                                      [3, 'when', 'conciliation', 'exit', 'n3', 'app:d1']]))
        # both copies started in the same round: still STARTING (uptime 0 for both) when the Master looks
        out.append(dict(base, script=[[0, 'start', 'n2', 'app:d1'], [0, 'start', 'n3', 'app:d1']], burst=True))
        out.append(dict(base, script=[[2, 'start', 'n3', 'app:d2'], [2, 'start', 'n1', 'app:d2'],
                                      [2, 'start', 'n2', 'app:d2']], burst=True))
        # only unmanaged duplicates
        out.append(dict(base, script=[[0, 'start', 'n2', 'unm:u1'], [2, 'start', 'n3', 'unm:u1'],
                                      [2, 'start', 'n1', 'unm:u1'], [1, 'start', 'n1', 'app:d1']], rounds=12))
        # partition healing: the Master restarted the lost process (RESTART_PROCESS), the other copy comes back
        out.append(dict(base, rfs={'d1': 'RESTART_PROCESS'}, rounds=40,
                        script=[[0, 'start', 'n3', 'app:d1'], [3, 'cut', 'n3', 'n1'], [3, 'cut', 'n3', 'n2'],
                                [14, 'heal']]))
        # the user resolves / the copy never stops
        out.append(dict(base, script=[[0, 'start', 'n2', 'app:d1'], [3, 'start', 'n3', 'app:d1'],
                                      [9, 'stop', 'n2', 'app:d1']], rounds=24))
        out.append(dict(base, script=[[0, 'start', 'n2', 'app:d1'], [3, 'start', 'n3', 'app:d1']],
                        neverstop=['app:d1'], rounds=24))
    for rfs in ('RESTART_PROCESS', 'STOP_APPLICATION', 'RESTART_APPLICATION'):
        out.append({'strategy': 'RUNNING_FAILURE', 'rfs': {'d1': rfs, 'd2': rfs}, 'rounds': 26,
                    'script': [[0, 'start', 'n2', 'app:d1'], [1, 'start', 'n1', 'app:e1'], [3, 'start', 'n3', 'app:d1']]})
        out.append({'strategy': 'RUNNING_FAILURE', 'rfs': {'d1': rfs}, 'rounds': 26,
                    'script': [[0, 'start', 'n2', 'app:d1'], [0, 'start', 'n1', 'app:d2'], [3, 'start', 'n3', 'app:d1'],
                               [3, 'start', 'n3', 'app:d2']]})
    return out


def gen_random(rnd):
    strat = rnd.choice(STRATS)
    script = []
    for _ in range(rnd.randrange(2, 7)):
        ns = rnd.choice(['app:d1', 'app:d1', 'app:d2', 'app:d2', 'app:e1', 'unm:u1'])
        node = rnd.choice(['n1', 'n2', 'n3']) if ns != 'app:e1' else 'n1'
        r = rnd.randrange(0, 9)
        if rnd.random() < 0.2:
            script.append([r, 'when', rnd.choice(['conciliating', 'conciliation']), 'start', node, ns])
        else:
            script.append([r, 'start', node, ns])
    sc = {'strategy': strat, 'script': script, 'rounds': 30}
    if rnd.random() < 0.3:
        sc['burst'] = True
    x = rnd.random()
    if x < 0.15:
        sc['script'].append([rnd.randrange(4, 12), 'stop', rnd.choice(['n1', 'n2', 'n3']),
                             rnd.choice(['app:d1', 'app:d2'])])
    elif x < 0.3:
        sc['script'].append([rnd.randrange(2, 10), 'when', 'conciliation', 'exit', rnd.choice(['n2', 'n3']),
                             rnd.choice(['app:d1', 'app:d2'])])
    elif x < 0.4:
        sc['neverstop'] = [rnd.choice(['app:d1', 'app:d2'])]
    if strat == 'RUNNING_FAILURE' or rnd.random() < 0.2:
        sc['rfs'] = {p: rnd.choice(['CONTINUE', 'RESTART_PROCESS', 'STOP_APPLICATION', 'RESTART_APPLICATION'])
                     for p in ('d1', 'd2')}
    return sc


def run_scenarios(scs):
    traces = []
    for i, sc in enumerate(scs):
        s = cl5.Scenario(sc)
        try:
            tr = s.run()
        finally:
            s.close()
        tr['id'] = i
        traces.append(tr)
    return traces


def judge(v, traces, scs, labels=None):
    labels = LABELS if labels is None else labels
    sc = vlib.scratch()
    path = os.path.join(sc, 'concil_traces.json')
    with open(path, 'w') as f:
        json.dump(traces, f)
    cfg = os.path.join(sc, 'concilmon.cfg')
    with open(cfg, 'w') as f:
        f.write('SPECIFICATION Spec\n')
    r = vlib.run_tlc('ConcilMon', cfg, workers=8, env={'TRACE_FILE': path}, timeout=2400, heap='8g')
    if not r.ok:
        raise MachineryFailure(f'ConcilMon: rc={r.rc} timed_out={r.timed_out} {r.error_text[:3000] or r.stdout[-1500:]}')
    done = {int(json.loads(l)[2:]) for l in r.stdout.splitlines() if l.startswith('"D ')}
    if done != {t['id'] for t in traces}:
        raise MachineryFailure(f'ConcilMon: {len(done)} traces completed out of {len(traces)}')
    for f in vlib.tlc_prints(r.stdout, 'V ') + vlib.tlc_prints(r.stdout, 'E '):
        mine = sorted(x for x in f['f'] if x in labels)
        if mine:
            scn = scs[f['t']]
            st = traces[f['t']]['steps'][f['s'] - 1]
            v.classify({'failed': mine[0], 'strategy': scn['strategy']},
                       f'{mine} at step {f["s"]} ({st["a"]} n{st["n"]} reqs={st["reqs"]} fsm={st["fsm"]} '
                       f'run@n1={st["run"][0]} truth={st["truth"]} err={st["errtxt"][-160:]}) of scenario '
                       f'{json.dumps(scn)[:900]}', {'scenario': scn, 'failed': mine, 'step': f['s']})
    v.cov['traces_validated_against_impl'] += len(traces)
    v.cov['evaluations'] += sum(len(t['steps']) for t in traces)


def compare_outcomes(v, skel_runs):
    """E2: copies left on the real cluster vs the outcomes the design model admits for the same skeleton."""
    n = 0
    for sc, outs, tr in skel_runs:
        if tr['phase_missed']:
            continue
        n += 1
        last = tr['steps'][-1]
        real = {}
        for k, ns in enumerate(cl5.PROCS):
            real[ns] = sorted(i + 1 for i, s in enumerate(last['truth'][k]) if s in ('STARTING', 'RUNNING', 'BACKOFF'))
        strat = sc['strategy']
        ok = False
        for o in outs:
            same = True
            for ns, left in o['left'].items():
                if strat in ('RESTART',):
                    same = same and len(left) == len(real[ns])
                elif strat in ('SENICIDE', 'INFANTICIDE') and len(left) == 1 and len(real[ns]) == 1:
                    # which copy survives is only predicted when the model's starts were heard one by one
                    hs = [e for e in sc['skeleton'] if e['p'] == ns]
                    ordered = all(e['seen'] for e in hs[1:])
                    same = same and (sorted(left) == real[ns] or not ordered)
                else:
                    same = same and sorted(left) == real[ns]
            ok = ok or same
        if not ok:
            v.drift.append(f'skeleton {json.dumps(sc["skeleton"])[:300]} ({strat}): copies left {real}, the design '
                           f'model admits {[o["left"] for o in outs][:3]}')
    v.cov['skeletons_compared'] = n


def main(tier, seed, replay=None):
    v = vlib.Verdict(PID, tier, seed)
    if replay:
        with open(replay) as f:
            scs = [json.load(f)['replay']['scenario']]
        judge(v, run_scenarios(scs), scs)
        return v.finish()
    rnd = random.Random(seed)
    model_check(v, tier)
    scs, skel_idx = [], []
    for strat in STRATS:
        for h, outs in skeletons(v, strat, tier, rnd):
            skel_idx.append((len(scs), outs))
            scs.append({'strategy': strat, 'skeleton': h, 'rounds': 28})
    scs += directed(tier)
    scs += [gen_random(rnd) for _ in range(60 if tier == 'quick' else 1500)]
    skel = dict(skel_idx)
    compared = 0
    for lo in range(0, len(scs), 150):          # chunk by chunk: bounded JSON size / TLC heap in thorough runs
        part = scs[lo:lo + 150]
        traces = run_scenarios(part)
        judge(v, traces, part)
        compare_outcomes(v, [(part[i], skel[lo + i], traces[i]) for i in range(len(part)) if lo + i in skel])
        compared += v.cov.get('skeletons_compared', 0)
    v.cov['skeletons_compared'] = compared
    v.cov['distinct_nontrivial'] = len({json.dumps(s, sort_keys=True) for s in scs})
    v.sample({'scenario': scs[len(scs) // 2]})
    v.cov['rule'] = ('one trace per scenario (design-model skeleton, directed or seeded random script), distinct by '
                     'construction; every step of every trace is evaluated by ConcilMon')
    v.assumptions += ['3 instances, n1 is the Master; duplicates created by direct Supervisor starts and by a healed '
                      'partition; start dates closer than one tick period are not ordered (uptimes are refreshed '
                      'once per tick)',
                      'RUNNING_FAILURE with an application-level running failure strategy: only detection, '
                      'Master-only and termination are judged (the stops then follow C06)']
    return v.finish()
