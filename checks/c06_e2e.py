"""C06 end to end: an instance is lost (or a process crashes) on a real 3-instance cluster; what every instance
emits afterwards and where the processes truly end up is summarised per scenario and judged by TLC (FailureE2E)."""
import itertools
import json
import os

import vlib
from vlib import MachineryFailure

STRATS = ['CONTINUE', 'RESTART_PROCESS', 'STOP_APPLICATION', 'RESTART_APPLICATION']


def rules(strategy, peer_strategy):
    return f'''<?xml version="1.0" encoding="UTF-8" standalone="no"?><root>
<application name="app"><start_sequence>0</start_sequence><programs>
<program name="p"><identifiers>*</identifiers><start_sequence>1</start_sequence>
<running_failure_strategy>{strategy}</running_failure_strategy></program>
<program name="q"><identifiers>*</identifiers><start_sequence>2</start_sequence>
<running_failure_strategy>{peer_strategy}</running_failure_strategy></program>
<program name="u"><identifiers>*</identifiers><start_sequence>0</start_sequence>
<running_failure_strategy>CONTINUE</running_failure_strategy></program>
</programs></application></root>'''


def scenario(strategy, lost, q_on, u_on, when, crash=False):
    """p runs on `lost`; q on q_on; u (not sequenced) on u_on; the instance `lost` is lost `when` rounds later."""
    import clusterlib as cl
    from recorder import Driver
    cfg = cl.Config(n=3, sync=('LIST', 'TIMEOUT'))
    progs = [{'name': x, 'groups': ['app']} for x in ('p', 'q', 'u')]
    c = cl.make_cluster(cfg, programs=progs, rules_xml=rules(strategy, 'CONTINUE'))
    d = Driver(c)
    out = {'strategy': strategy, 'lost': int(lost[1]), 'p': 'p', 'crash': crash, 'err': False}
    try:
        for n in c.nodes:
            d.boot(n)
        for _ in range(7):
            d.fair_round()
        if c.fsm_state('n1') != 'OPERATION':
            raise MachineryFailure('C06 e2e: no OPERATION')
        d.rpc(lost, 'startProcess', 'app:p', False, ns='supervisor')
        if q_on:
            d.rpc(q_on, 'startProcess', 'app:q', False, ns='supervisor')
        if u_on:
            d.rpc(u_on, 'startProcess', 'app:u', False, ns='supervisor')
        for _ in range(2 + when):
            d.fair_round()
        master = c.nick(c.master('n1'))
        out['master0'] = int(master[1]) if master else 0
        mark = len(d.rec.steps)
        if crash:
            d.env('exit', lost, 'app:p', 3)       # unexpected exit code
            alive = ['n1', 'n2', 'n3']
        else:
            d.crash(lost)
            alive = [n for n in c.nodes if n != lost]
        peers = []
        for n in alive:
            for ns, proc in c.nodes[n].processes():
                if proc.state in (10, 20, 30) and ns != 'app:p':
                    peers.append([ns.split(':')[1], int(n[1])])
        for _ in range(14):
            d.fair_round(reap=True)
        master2 = c.nick(c.master(alive[0]))
        reqs = []
        for st in d.rec.steps[mark:]:
            for src, dst, typ, what, arg, iso in st['push']:
                if typ == 'R' and what in (1, 2):
                    reqs.append(['START' if what == 1 else 'STOP', int(src[1]), int(dst[1]), arg.split(':')[1]])
            if st['err']:
                out['err'] = True
        final = []
        for n in c.nodes:
            if c.nodes[n].alive:
                for ns, proc in c.nodes[n].processes():
                    if proc.state in (10, 20, 30):
                        final.append([ns.split(':')[1], int(n[1])])
        out.update({'master': int(master2[1]) if master2 else 0, 'peers': peers, 'sequenced': ['p', 'q'],
                    'reqs': reqs, 'final': final, 'alive': [int(n[1]) for n in alive],
                    'schedule': d.rec.schedule})
    finally:
        c.close()
    return out


def scenarios(tier):
    out = []
    for strategy in STRATS:
        for lost in ('n3', 'n1'):          # a slave / the Master itself is lost
            for q_on, u_on in ((None, None), ('n2', None), ('n2', 'n2'), (lost, 'n2')):
                for when in ((0,) if tier == 'quick' else (0, 1, 3)):
                    out.append((strategy, lost, q_on, u_on, when))
        # the process crashes (its instance stays): application-level strategies are applied the same way
        if strategy in ('STOP_APPLICATION', 'RESTART_APPLICATION'):
            for host in ('n3', 'n1'):
                out.append((strategy, host, 'n2', 'n2', 0, True))
    return out


def run(v, tier, seed):
    recs = []
    for sc in scenarios(tier):
        recs.append(scenario(*sc))
    sd = vlib.scratch()
    path = os.path.join(sd, 'e2e.json')
    with open(path, 'w') as f:
        json.dump([{k: x for k, x in r.items() if k != 'schedule'} for r in recs], f)
    cfg = os.path.join(sd, 'e2e.cfg')
    open(cfg, 'w').write('')
    rm = vlib.run_tlc('FailureE2E', cfg, workers=1, env={'RECS_FILE': path}, timeout=600)
    if not rm.ok:
        raise MachineryFailure(f'FailureE2E: {rm.error_text[:2000]}')
    ns = [l for l in rm.stdout.splitlines() if l.startswith('"N ')]
    if not ns or int(json.loads(ns[0])[2:]) != len(recs):
        raise MachineryFailure('FailureE2E did not read all records')
    for bad in vlib.tlc_prints(rm.stdout, 'V '):
        r = recs[bad['i'] - 1]
        v.violation(f'end to end: {sorted(bad["failed"])} strategy={r["strategy"]} lost=n{r["lost"]} master=n{r["master"]} '
                    f'peers={r["peers"]} reqs={r["reqs"]} final={r["final"]}',
                    {'level': 'e2e', 'failed': sorted(bad['failed']), 'schedule': r['schedule'],
                     'strategy': r['strategy']})
    listed = {f['id']: f for f in vlib.known_for('C06')}
    for hit in vlib.tlc_prints(rm.stdout, 'K '):
        r = recs[hit['i'] - 1]
        for fid in hit['known']:
            if fid in listed:
                v.known(fid, listed[fid]['what'])
            else:
                v.violation(f'end to end: signature {fid} (not a listed finding) strategy={r["strategy"]} reqs={r["reqs"]}',
                            {'level': 'e2e', 'failed': [fid], 'schedule': r['schedule'], 'strategy': r['strategy']})
    v.cov['traces_validated_against_impl'] += len(recs)
    v.cov['evaluations'] += len(recs)
    v.cov['e2e_scenarios'] = len(recs)
    v.sample({k: x for k, x in recs[5].items() if k != 'schedule'})


def replay(rep):
    print('replay of an end-to-end scenario: re-run bin/check C06 (scenarios are deterministic);', rep.get('strategy'))
    return 0
