"""C06 end to end: an instance is lost (or a process crashes) on a real 3-instance cluster; what every instance
emits afterwards and where the processes truly end up is summarised per scenario and judged by TLC (FailureE2E)."""
import itertools
import json
import os

import vlib
from vlib import MachineryFailure

STRATS = ['CONTINUE', 'RESTART_PROCESS', 'STOP_APPLICATION', 'RESTART_APPLICATION']


def rules(strategy, peer_strategy, hold_seq=0):
    return f'''<?xml version="1.0" encoding="UTF-8" standalone="no"?><root>
<application name="app"><start_sequence>0</start_sequence><programs>
<program name="p"><identifiers>*</identifiers><start_sequence>1</start_sequence>
<running_failure_strategy>{strategy}</running_failure_strategy></program>
<program name="q"><identifiers>*</identifiers><start_sequence>2</start_sequence>
<running_failure_strategy>{peer_strategy}</running_failure_strategy></program>
<program name="u"><identifiers>*</identifiers><start_sequence>0</start_sequence>
<running_failure_strategy>CONTINUE</running_failure_strategy></program>
</programs></application>
<application name="dup"><programs><program name="d"><identifiers>*</identifiers>
<running_failure_strategy>{peer_strategy}</running_failure_strategy></program></programs></application>
<application name="hold"><start_sequence>{hold_seq}</start_sequence><programs><program name="h1">
<identifiers>n1</identifiers><start_sequence>1</start_sequence></program></programs></application>
</root>'''


def scenario(strategy, lost, q_on, u_on, when, crash=False, phase='operation', double=False):
    """p runs on `lost`; q on q_on; u (not sequenced) on u_on; the instance `lost` is lost `when` rounds later."""
    import clusterlib as cl
    from recorder import Driver
    cfg = cl.Config(n=3, sync=('LIST', 'TIMEOUT'))
    progs = [{'name': x, 'groups': ['app']} for x in ('p', 'q', 'u')]
    progs += [{'name': 'd', 'groups': ['dup']}, {'name': 'h1', 'groups': ['hold'], 'startsecs': 60}]
    # phase 'distribution': the Master is held in DISTRIBUTION by a start that never ends (hold:h1 on n1)
    c = cl.make_cluster(cfg, programs=progs, rules_xml=rules(strategy, 'RESTART_PROCESS' if double else 'CONTINUE',
                                                                1 if phase == 'distribution' else 0))
    d = Driver(c)
    out = {'strategy': strategy, 'lost': int(lost[1]), 'p': 'p', 'crash': crash, 'err': False, 'phase': phase}
    try:
        for n in c.nodes:
            d.boot(n)
        for _ in range(7):
            d.fair_round()
        if c.fsm_state('n1') != ('DISTRIBUTION' if phase == 'distribution' else 'OPERATION'):
            raise MachineryFailure(f'C06 e2e: n1 in {c.fsm_state("n1")} (phase {phase})')
        d.rpc(lost, 'startProcess', 'app:p', False, ns='supervisor')
        if q_on:
            # (double loss: the second process belongs to ANOTHER application, else the loss of both promotes
            # RESTART_PROCESS to RESTART_APPLICATION and hides which process was handed to the handler)
            d.rpc(q_on, 'startProcess', 'dup:d' if double else 'app:q', False, ns='supervisor')
        if u_on:
            d.rpc(u_on, 'startProcess', 'app:u', False, ns='supervisor')
        if phase == 'conciliation':
            # a conflict left to the user (conciliation_strategy USER) on the survivors: the Master is in CONCILIATION
            for n in c.nodes:
                if n != lost:
                    d.rpc(n, 'startProcess', 'dup:d', False, ns='supervisor')
        for _ in range(2 + when):
            d.fair_round()
        want = {'operation': 'OPERATION', 'conciliation': 'CONCILIATION', 'distribution': 'DISTRIBUTION'}[phase]
        if c.fsm_state('n1') != want:
            raise MachineryFailure(f'C06 e2e: n1 in {c.fsm_state("n1")}, wanted {want}')
        master = c.nick(c.master('n1'))
        out['master0'] = int(master[1]) if master else 0
        mark = len(d.rec.steps)
        if crash:
            d.env('exit', lost, 'app:p', 3)       # unexpected exit code
            alive = ['n1', 'n2', 'n3']
        else:
            d.crash(lost)
            alive = [n for n in c.nodes if n != lost]
            if double:
                # the instance hosting q is lost at the same instant: both are invalidated in the same FSM cycle
                d.crash(q_on)
                alive = [n for n in alive if n != q_on]
        peers = []
        for n in alive:
            for ns, proc in c.nodes[n].processes():
                if proc.state in (10, 20, 30) and ns != 'app:p' and ns.startswith('app:'):
                    peers.append([ns.split(':')[1], int(n[1])])
        for _ in range(14 if phase != 'distribution' else 26):
            d.fair_round(reap=True)
        master2 = c.nick(c.master(alive[0]))
        reqs = []
        for st in d.rec.steps[mark:]:
            for src, dst, typ, what, arg, iso in st['push']:
                if typ == 'R' and what in (1, 2) and arg.startswith('app:'):
                    reqs.append(['START' if what == 1 else 'STOP', int(src[1]), int(dst[1]), arg.split(':')[1]])
            if st['err']:
                out['err'] = True
        final = []
        for n in c.nodes:
            if c.nodes[n].alive:
                for ns, proc in c.nodes[n].processes():
                    if proc.state in (10, 20, 30) and ns.startswith('app:'):
                        final.append([ns.split(':')[1], int(n[1])])
        out.update({'master': int(master2[1]) if master2 else 0, 'peers': peers, 'sequenced': ['p', 'q'],
                    'reqs': reqs, 'final': final, 'alive': [int(n[1]) for n in alive],
                    'schedule': d.rec.schedule})
    finally:
        c.close()
    return out


def scenarios(tier):
    out = []
    for strategy in STRATS:
        for lost in ('n3', 'n1'):          # a slave / the Master itself is lost
            for q_on, u_on in ((None, None), ('n2', None), ('n2', 'n2'), (lost, 'n2')):
                for when in ((0,) if tier == 'quick' else (0, 1, 3)):
                    out.append((strategy, lost, q_on, u_on, when))
        # the process crashes (its instance stays): application-level strategies are applied the same way
        if strategy in ('STOP_APPLICATION', 'RESTART_APPLICATION'):
            for host in ('n3', 'n1'):
                out.append((strategy, host, 'n2', 'n2', 0, True))
        # two instances lost together (each hosting a process that runs only there), both orders
        if strategy == 'RESTART_PROCESS':
            out.append((strategy, 'n2', 'n3', None, 0, False, 'operation', True))
            out.append((strategy, 'n3', 'n2', None, 0, False, 'operation', True))
        # the instance is lost while the Master is in CONCILIATION (conflict left to the user) / held in DISTRIBUTION
        for phase in ('conciliation', 'distribution'):
            for q_on, u_on in ((None, None), ('n2', 'n2')):
                out.append((strategy, 'n3', q_on, u_on, 1, False, phase))
    return out


def run(v, tier, seed):
    recs = []
    for sc in scenarios(tier):
        recs.append(scenario(*sc))
    sd = vlib.scratch()
    path = os.path.join(sd, 'e2e.json')
    with open(path, 'w') as f:
        json.dump([{k: x for k, x in r.items() if k != 'schedule'} for r in recs], f)
    cfg = os.path.join(sd, 'e2e.cfg')
    open(cfg, 'w').write('')
    rm = vlib.run_tlc('FailureE2E', cfg, workers=1, env={'RECS_FILE': path}, timeout=600)
    if not rm.ok:
        raise MachineryFailure(f'FailureE2E: {rm.error_text[:2000]}')
    ns = [l for l in rm.stdout.splitlines() if l.startswith('"N ')]
    if not ns or int(json.loads(ns[0])[2:]) != len(recs):
        raise MachineryFailure('FailureE2E did not read all records')
    for bad in vlib.tlc_prints(rm.stdout, 'V '):
        r = recs[bad['i'] - 1]
        v.violation(f'end to end: {sorted(bad["failed"])} phase={r["phase"]} strategy={r["strategy"]} lost=n{r["lost"]} master=n{r["master"]} '
                    f'peers={r["peers"]} reqs={r["reqs"]} final={r["final"]}',
                    {'level': 'e2e', 'failed': sorted(bad['failed']), 'schedule': r['schedule'],
                     'strategy': r['strategy']})
    listed = {f['id']: f for f in vlib.known_for('C06')}
    for hit in vlib.tlc_prints(rm.stdout, 'K '):
        r = recs[hit['i'] - 1]
        for fid in hit['known']:
            if fid in listed:
                v.known(fid, listed[fid]['what'])
            else:
                v.violation(f'end to end: signature {fid} (not a listed finding) strategy={r["strategy"]} reqs={r["reqs"]}',
                            {'level': 'e2e', 'failed': [fid], 'schedule': r['schedule'], 'strategy': r['strategy']})
    v.cov['traces_validated_against_impl'] += len(recs)
    v.cov['evaluations'] += len(recs)
    v.cov['e2e_scenarios'] = len(recs)
    v.sample({k: x for k, x in recs[5].items() if k != 'schedule'})


def replay(rep):
    print('replay of an end-to-end scenario: re-run bin/check C06 (scenarios are deterministic);', rep.get('strategy'))
    return 0
