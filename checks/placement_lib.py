"""Realisation of placement situations (C04 / C14 / C19) on a real 3-instance / 2-node cluster.

Instances: n1, n2 on node A (same host, two ports), n3 on node B. Requester: n1 (the Master).
Every (knows-vector, identifiers rule, expected_loading, pending placement) variant is a distinct application
T<k>_<r>_<l>_<p> = { pnd... (load 30, identifiers = the pending instance, sequence 1), tgt... (load L, identifiers =
the rule, sequence 1) } so that one booted cluster serves many situations; instance loads are realised by really
running load programs (ld40, ld70), disabling through the real `disable` XML-RPC, non-RUNNING instances by crashing
them. A decision is observed on the wire (START requests pushed by n1, not yet executed) together with the view n1
reports through its XML-RPCs and the true Supervisor configuration of every instance.
"""
import itertools
import os
import random
import sys

sys.path.insert(0, os.path.join(os.path.dirname(os.path.abspath(__file__)), '..', 'harness'))
from vlib import MachineryFailure

NODES = {'n1': (1, 60001), 'n2': (1, 60002), 'n3': (2, 60003)}
NODE_ID = {'n1': 1, 'n2': 1, 'n3': 2}
KNOWS = ['111', '110', '011', '101']
RULES = ['*', 'n2', 'n3,n1', 'n3,n2,n1']
LOADS = [10, 40, 70]
PENDS = [0, 1, 2, 3, 4]        # 4: two pending requests, on n1 and on n2 (both instances of node A)
STRATS = ['CONFIG', 'LESS_LOADED', 'MOST_LOADED', 'LOCAL', 'LESS_LOADED_NODE', 'MOST_LOADED_NODE']


def app_name(k, r, l, p):
    return f'T{k}_{r}_{l}_{p}'


def build_layout():
    progs = {n: [] for n in NODES}
    apps_xml = []
    for ki, k in enumerate(KNOWS):
        for ri, rule in enumerate(RULES):
            for l in LOADS:
                for p in PENDS:
                    a = app_name(ki, ri, l, p)
                    tgt, pnd = f'tgt{ki}_{ri}_{l}_{p}', f'pnd{ki}_{ri}_{l}_{p}'
                    xml = f'<application name="{a}"><start_sequence>0</start_sequence><programs>'
                    for sfx, inst in (((('', p),) if p in (1, 2, 3) else (('a', 1), ('b', 2))) if p else ()):
                        xml += (f'<program name="{pnd}{sfx}"><identifiers>n{inst}</identifiers><start_sequence>1'
                                f'</start_sequence><expected_loading>30</expected_loading></program>')
                    xml += (f'<program name="{tgt}"><identifiers>{rule}</identifiers><start_sequence>1'
                            f'</start_sequence><expected_loading>{l}</expected_loading></program>')
                    xml += '</programs></application>'
                    apps_xml.append(xml)
                    for idx, n in enumerate(NODES):
                        # the pending program is listed before the target in its group (start order of the group)
                        for sfx in (([''] if p in (1, 2, 3) else ['a', 'b']) if p else []):
                            progs[n].append({'name': pnd + sfx, 'groups': [a], 'startsecs': 100000})
                        if k[idx] == '1':
                            progs[n].append({'name': tgt, 'groups': [a]})
    # load programs are distinct per instance (the same process running on two instances would be a conflict)
    load_xml = '<application name="loadapp"><start_sequence>0</start_sequence><programs>'
    for n in NODES:
        load_xml += (f'<program name="ld40{n}"><identifiers>{n}</identifiers><expected_loading>40</expected_loading>'
                     f'</program><program name="ld30{n}"><identifiers>{n}</identifiers><expected_loading>30'
                     '</expected_loading></program>')
        progs[n] += [{'name': f'ld40{n}', 'groups': ['loadapp']}, {'name': f'ld30{n}', 'groups': ['loadapp']}]
    load_xml += '</programs></application>'
    rules = ('<?xml version="1.0" encoding="UTF-8" standalone="no"?><root>' + ''.join(apps_xml) + load_xml +
             '</root>')
    layout = {n: {'host': h, 'port': p, 'programs': progs[n]} for n, (h, p) in NODES.items()}
    return layout, rules


class PlacementCluster:
    def __init__(self, down=(), restarted=()):
        from simcluster import Cluster
        layout, rules = build_layout()
        self.c = Cluster(layout, options={'synchro_options': 'LIST,TIMEOUT', 'synchro_timeout': '15'},
                         rules_xml=rules)
        self.c.boot_all()
        for _ in range(8):
            self.c.round()
        for n in down:
            self.c.crash(n)
        for n in restarted:
            # an instance that restarted (twice) and was identified again by its peers
            for _ in range(2):
                self.c.crash(n)
                for _ in range(5):
                    self.c.round()
                self.c.boot(n)
                for _ in range(8):
                    self.c.round()
        for _ in range(6):
            self.c.round()
        st = self.c.fsm_state('n1')
        if st != 'OPERATION':
            raise MachineryFailure(f'placement harness: n1 in {st}')
        self.down = set(down)
        self.disabled = {}        # (instance, program) currently disabled

    def close(self):
        self.c.close()

    # -- environment ------------------------------------------------------------------------------------------
    def rounds(self, k=2):
        for _ in range(k):
            self.c.round()
            self.reap()

    def reap(self):
        c = self.c
        for n, node in c.nodes.items():
            if node.alive:
                for ns, proc in list(node.processes()):
                    if proc.state == 40 and proc.pid:
                        c.proc_killed(n, ns)
                c.drain()

    def set_loads(self, loads):
        """loads: {instance: 0 | 30 | 40 | 70} realised with ld30 / ld40 really running there."""
        c = self.c
        want = {0: [], 30: ['ld30'], 40: ['ld40'], 70: ['ld30', 'ld40']}
        for n, l in loads.items():
            if n in self.down:
                continue
            for base in ('ld30', 'ld40'):
                prog = base + n
                proc = c.nodes[n].process(f'loadapp:{prog}')
                should = base in want[l]
                is_on = proc.state in (10, 20)
                if should and not is_on:
                    c.rpc(n, 'startProcess', f'loadapp:{prog}', False, ns='supervisor')
                elif not should and is_on:
                    c.rpc(n, 'stopProcess', f'loadapp:{prog}', False, ns='supervisor')
        self.rounds(3)

    def set_disabled(self, n, program, flag):
        if n in self.down:
            return
        cur = self.disabled.get((n, program), False)
        known = any(ns.split(':')[1] == program for ns, _ in self.c.nodes[n].processes())
        if cur != flag and known:
            r = self.c.rpc(n, 'disable' if flag else 'enable', program, False)
            if r[0] != 'ok':
                raise MachineryFailure(f'placement harness: {"disable" if flag else "enable"} {program} on {n}: {r}')
            self.disabled[(n, program)] = flag
            self.rounds(2)

    def stop_all_targets(self):
        """Cleanup: stop whatever was started by a decision."""
        c = self.c
        c.drain()
        self.rounds(2)
        for n, node in c.nodes.items():
            if not node.alive:
                continue
            for ns, proc in list(node.processes()):
                if not ns.startswith('loadapp:') and proc.state in (10, 20, 30):
                    c.rpc(n, 'stopProcess', ns, False, ns='supervisor')
        self.rounds(3)
        s = c.nodes['n1'].supvisors
        if s.starter.in_progress() or s.stopper.in_progress():
            with c.enter('n1'):
                s.starter.abort()
                s.stopper.abort()
            self.rounds(1)

    # -- observation ------------------------------------------------------------------------------------------
    def view(self, program, rule, L, strategy, pend_inst):
        """The situation as n1 reports it + true Supervisor configuration of each instance."""
        c = self.c
        infos = {c.nick(i['identifier']): i for i in c.call('n1', 'get_all_instances_info')}
        names = list(NODES)
        rec = {'n': 3, 'node': [NODE_ID[n] for n in names],
               'running': [infos[n]['statename'] == 'RUNNING' for n in names],
               'load': [int(infos[n]['loading']) for n in names],
               'knows': [], 'disabled': [], 'pend': [0, 0, 0], 'L': L, 'strategy': strategy, 'req': 1}
        for n in names:
            node = c.nodes[n]
            known, dis = False, False
            if node.alive:
                for ns, proc in node.processes():
                    if ns.split(':')[1] == program:
                        known = True
                        dis = bool(proc.supvisors_config.program_config.disabled)
            rec['knows'].append(known)
            rec['disabled'].append(dis)
        for pi in (pend_inst if isinstance(pend_inst, list) else ([pend_inst] if pend_inst else [])):
            rec['pend'][pi - 1] += 30
        allowed = names if rule == '*' else rule.split(',')
        rec['allowed'] = [int(x[1]) for x in allowed]
        return rec

    def decide(self, ki, ri, L, p, strategy, method='start_application'):
        """Issue the start on n1 and observe the decision (requests pushed, nothing executed yet)."""
        c = self.c
        a = app_name(ki, ri, L, p)
        tgt = f'tgt{ki}_{ri}_{L}_{p}'
        rule = RULES[ri]
        mark = len(c.wirelog)
        c.errors = []
        res = c.rpc('n1', method, strategy, a if method == 'start_application' else f'{a}:{tgt}', False)
        pushes = [w for w in c.wirelog[mark:] if w[1] == 'push_req' and w[4] == 1]
        errs = c.errors
        c.errors = []
        target = 0
        pend_targets = []
        for w in pushes:
            ns = w[5][0]
            if ns == f'{a}:{tgt}':
                target = int(w[3][1])
            elif ns.startswith(f'{a}:pnd'):
                pend_targets.append(int(w[3][1]))
        rec = self.view(tgt, rule, L, strategy, pend_targets)
        # what is displayed for the target process when nothing was sent
        fatal = False
        pi = c.rpc('n1', 'get_process_info', f'{a}:{tgt}')
        if pi[0] == 'ok':
            fatal = pi[1][0]['statename'] == 'FATAL'
        rec.update({'target': target, 'fatal': fatal,
                    'err': (errs[0]['exc'][-200:] if errs else ('' if res[0] in ('ok', 'fault') else str(res)))})
        rec['_res'] = [res[0], res[1] if len(res) > 1 and res[0] == 'fault' else '']
        rec['_app'] = a
        return rec


def sample_situations(seed, count):
    rnd = random.Random(seed)
    out = []
    for _ in range(count):
        out.append({'k': rnd.randrange(len(KNOWS)), 'r': rnd.randrange(len(RULES)), 'L': rnd.choice(LOADS),
                    'p': rnd.choice(PENDS), 'strategy': rnd.choice(STRATS),
                    'loads': {n: rnd.choice([0, 0, 30, 40, 70]) for n in NODES},
                    'disabled': rnd.choice([None, None, 'n1', 'n2', 'n3'])})
    return out
