"""C15 - application state and operational status follow their definition.

AppStatus.tla is the definition (documented rule). TLC enumerates (a) every state vector of 3 processes
(9 displays x required) with the admitted (state, major, minor) and (b) every formula tree up to depth 1 (quick) /
2 (thorough) over exact names, 1-match / 2-match / 0-match patterns with the major failure for each of the 8
truth assignments. Each case is realised on a REAL ApplicationStatus of a live SimCluster node: states through real
process events (Context.on_process_state_event), `required` through real rules files, formulas through the real
ApplicationRules.status_formula setter (and through Parser.load_status for a sample), and observed through the
XML-RPC get_application_info. A finite table of unsupported construct classes rendered to Python source must yield
a major failure, no exception and no side effect (sys.addaudithook recorder).
"""
import json
import os
import sys

sys.path.insert(0, os.path.join(os.path.dirname(os.path.abspath(__file__)), '..', 'harness'))
import vlib
from vlib import MachineryFailure

PID = 'C15'
NAMES = ['p1', 'p2', 'q1']
CODE = {'STOPPED': 0, 'STARTING': 10, 'RUNNING': 20, 'BACKOFF': 30, 'STOPPING': 40, 'EXITED_OK': 100,
        'EXITED_KO': 100, 'FATAL': 200, 'UNKNOWN': 1000}
PATTERNS = {1: 'p.', 2: 'q.*', 3: 'z.*'}

# unsupported construct classes -> concrete sources (each must give major failure, no error, no side effect)
HOSTILE = {
    'attribute_call': ['"p1".upper()', 'p1.running()', '"p1".__class__'],
    'other_function': ['len("p1")', 'print("p1")', 'eval("p1")', '__import__("os")', 'open("/etc/passwd")',
                       'exec("x=1")'],
    'any_all_arity': ['all()', 'any()', 'all("p1", "p2")', 'any("p.", "q1")'],
    'keyword_args': ['all(x="p1")', 'any("p1", key="p2")'],
    'comparison': ['"p1" == "p2"', '"p1" < "p2"', '"p1" in "p2"', '"p1" is "q1"'],
    'arithmetic': ['"p1" + "p2"', '1 + 2', '"p1" * 3', '-"p1"', '~"p1"'],
    'constants': ['1', 'None', 'True', 'b"p1"', '1.5', '...'],
    'lambda_comprehension': ['lambda: "p1"', '[x for x in "p1"]', '{"p1": "q1"}', '["p1", "q1"]', '("p1", "q1")',
                             '{"p1"}', '(x for x in "p1")'],
    'subscript_fstring_starred': ['"p1"[0]', 'f"p{1}"', 'all(*["p1"])', '(y := "p1")', '"p1" if "q1" else "p2"'],
    'statements': ['import os', 'pass', 'x = "p1"', '"p1"; "q1"', 'del x', 'assert "p1"', 'raise "p1"',
                   'def f(): pass', 'for x in "p1": pass', 'global x', 'with "p1": pass'],
    'bare_names': ['p1', 'p1 and q1', 'all(p1)', 'os'],
    'invalid_regex': ['"("', '"p[1"', '"*"', 'any("(")', '"p1" and "?"'],
    'valid_stress': ['not ' * 50 + '"p1"', '(' * 40 + '"p1"' + ')' * 40, ' and '.join(['"p1"'] * 200)],
    'syntax_error': ['"p1" and', '((', 'any(', '"p1" &&  "q1"', ''],
    'list_misuse': ['"p." and "q1"', 'not "p."', '"p."', 'all("p.") and "p."', 'any("z.*")', 'not "z.*"'],
}


def rules_xml(req, formula=None):
    progs = ''
    for n, r in zip(NAMES, req):
        progs += (f'<program name="{n}"><identifiers>*</identifiers><start_sequence>1</start_sequence>'
                  f'<required>{"true" if r else "false"}</required></program>')
    f = f'<operational_status>{formula}</operational_status>' if formula else ''
    return ('<?xml version="1.0" encoding="UTF-8" standalone="no"?><root><application name="app">'
            f'<start_sequence>0</start_sequence>{f}<programs>{progs}</programs></application></root>')


class Live:
    """One live node (n1 of a 2-instance cluster in OPERATION) holding application 'app' = p1, p2, q1."""

    def __init__(self, req, formula=None, grown=False):
        from simcluster import Cluster
        progs = [{'name': n, 'groups': ['app']} for n in NAMES]
        layout = {f'n{i}': {'host': i, 'port': 60000 + i, 'programs': progs} for i in (1, 2)}
        if grown:
            # the application grows: n1 only configures p1 and q1, the status is evaluated (p1 started), then n2 joins
            # and brings p2
            layout['n1']['programs'] = [x for x in progs if x['name'] != 'p2']
            self.c = Cluster(layout, options={'synchro_options': 'LIST,TIMEOUT', 'synchro_timeout': '15'},
                             rules_xml=rules_xml(req, formula))
            self.c.boot('n1')
            for _ in range(8):
                self.c.round()
            self.c.rpc('n1', 'startProcess', 'app:p1', False, ns='supervisor')
            for _ in range(3):
                self.c.round()
            self.c.rpc('n1', 'get_application_info', 'app')
            self.c.rpc('n1', 'stopProcess', 'app:p1', False, ns='supervisor')
            self.c.round()
            for n, node in self.c.nodes.items():
                if node.alive:
                    for ns, proc in list(node.processes()):
                        if proc.state == 40 and proc.pid:
                            self.c.proc_killed(n, ns)
            self.c.boot('n2')
        else:
            self.c = Cluster(layout, options={'synchro_options': 'STRICT'}, rules_xml=rules_xml(req, formula))
            self.c.boot_all()
        for _ in range(8):
            self.c.round()
        if self.c.fsm_state('n1') != 'OPERATION':
            raise MachineryFailure('C15 harness: no OPERATION')
        self.s = self.c.nodes['n1'].supvisors
        self.ctx = self.s.context
        self.app = self.ctx.applications['app']
        self.status = self.ctx.instances[self.c.nodes['n2'].identifier]
        self.t = 100.0
        got = [self.app.processes[n].rules.required for n in NAMES]
        if got != list(req):
            raise MachineryFailure(f'C15 harness: required flags {got} != {req}')

    def close(self):
        self.c.close()

    def set_states(self, displays):
        """Real process events published by instance n2."""
        with self.c.enter('n1'):
            for n, dsp in zip(NAMES, displays):
                self.t += 1.0
                payload = {'identifier': self.c.nodes['n2'].identifier, 'nick_identifier': 'n2', 'name': n,
                           'group': 'app', 'state': CODE[dsp], 'now': 1.7e9 + self.t, 'now_monotonic': self.t,
                           'pid': 0, 'expected': dsp != 'EXITED_KO', 'spawnerr': '', 'extra_args': '',
                           'disabled': False}
                self.ctx.on_process_state_event(self.status, payload)

    def info(self):
        r = self.c.rpc('n1', 'get_application_info', 'app')
        errs = self.c.errors
        self.c.errors = []
        if r[0] != 'ok':
            return None, f'{r}'
        return r[1], (errs[0]['exc'][-300:] if errs else '')


def render(t):
    k = t[0]
    if k == 'n':
        return f'"{NAMES[t[1] - 1]}"'
    if k == 'p':
        return f'"{PATTERNS[t[1]]}"'
    if k == 'not':
        return f'(not {render(t[1])})'
    if k in ('any', 'all'):
        return f'{k}({render(t[1])})'
    return f'({render(t[1])} {k} {render(t[2])})'


AUDIT = {'on': False, 'events': []}
_HOOKED = []


def audit_hook(event, args):
    if AUDIT['on'] and event in ('import', 'exec', 'compile', 'open', 'os.system', 'subprocess.Popen',
                                 'socket.connect', 'os.remove', 'os.exec', 'os.fork', 'os.posix_spawn'):
        if event == 'compile' and args and args[1] in ('<unknown>', '<string>'):
            # ast.parse of the formula itself / eval of 'all([...])' built by the evaluator
            src = args[0]
            AUDIT['events'].append((event, str(src)[:60] if not isinstance(src, (bytes, str)) else src[:60]))
            return
        AUDIT['events'].append((event, str(args)[:80]))


def main(tier, seed, replay=None):
    v = vlib.Verdict(PID, tier, seed)
    sc = vlib.scratch()
    depth = 1 if tier == 'quick' else 2
    cfg = os.path.join(sc, 'app.cfg')
    with open(cfg, 'w') as f:
        f.write(f'CONSTANTS Depth = {depth}\n DoVectors = TRUE\n')
    r = vlib.run_tlc('AppStatusGen', cfg, workers=1, timeout=1200)
    if not r.ok:
        raise MachineryFailure(f'AppStatusGen: {r.error_text[:2000]}')
    cases = vlib.tlc_prints(r.stdout, 'C ')
    forms = vlib.tlc_prints(r.stdout, 'F ')
    v.cov['states'] = len(cases) + len(forms) * 8
    v.cov['transitions'] = v.cov['states']
    v.cov['tlc_runs'].append({'name': 'AppStatusGen (definition enumeration)', 'cases': len(cases),
                              'formulas': len(forms), 'wall_s': round(r.wall, 1)})
    if len(cases) != 5832:
        raise MachineryFailure(f'C15: {len(cases)} vectors emitted')
    n_eval = 0
    # (a) state vectors, grouped by required flags (one live node per flag combination: real rules parsing)
    by_req = {}
    for c in cases:
        by_req.setdefault(tuple(x[1] for x in c['v']), []).append(c)
    for req, cs in sorted(by_req.items()):
        lv = Live(req)
        try:
            for c in cs:
                lv.set_states([x[0] for x in c['v']])
                info, err = lv.info()
                n_eval += 1
                if info is None or err:
                    v.violation(f'vector {c["v"]}: get_application_info failed: {err}', {'vector': c['v']})
                    continue
                got = (info['statename'], bool(info['major_failure']), bool(info['minor_failure']))
                ok = got[0] == c['state'] and got[1] == c['major'] and got[2] in c['minor']
                if not ok:
                    v.violation(f'vector {c["v"]}: definition (state={c["state"]}, major={c["major"]}, minor in '
                                f'{c["minor"]}) but get_application_info reports {got}',
                                {'vector': c['v'], 'expected': [c['state'], c['major'], c['minor']], 'got': got})
        finally:
            lv.close()
    v.sample({'vector': cases[1234]['v'], 'state': cases[1234]['state'], 'major': cases[1234]['major'],
              'minor_admitted': cases[1234]['minor']})
    # (b) formulas
    ASSIGN = [(a, b, c) for a in (False, True) for b in (False, True) for c in (False, True)]
    lv = Live((False, False, False))
    if not _HOOKED:
        sys.addaudithook(audit_hook)
        _HOOKED.append(1)
    try:
        from supvisors.ttypes import ApplicationStatusParseError

        def evaluate(src, label):
            """Install the formula through the real setter, evaluate for the 8 assignments."""
            out = []
            snap0 = json.dumps(lv.c.call('n1', 'get_all_process_info'), sort_keys=True, default=str)[:0]
            AUDIT['events'] = []
            AUDIT['on'] = True
            try:
                try:
                    with lv.c.enter('n1'):
                        lv.app.rules._status_formula = None
                        lv.app.rules._status_tree = None
                        lv.app.rules.status_formula = src
                    accepted = True
                except ApplicationStatusParseError:
                    accepted = False        # refused at load time: the rules keep no formula (documented)
                except Exception as exc:
                    AUDIT['on'] = False
                    return None, f'setter raised {exc!r}'
                for a in ASSIGN:
                    try:
                        lv.set_states(['RUNNING' if x else 'STOPPED' for x in a])
                    except Exception as exc:
                        AUDIT['on'] = False
                        return None, f'update raised {exc!r}'
                    info, err = lv.info()
                    if info is None or err:
                        AUDIT['on'] = False
                        return None, f'get_application_info: {err}'
                    out.append(bool(info['major_failure']))
            finally:
                AUDIT['on'] = False
            bad = []
            for ev, arg in AUDIT['events']:
                a = str(arg)
                if ev == 'compile' and (a.startswith(("b'any([", "b'all([", 'any([', 'all([')) or src[:50] in a or a.strip("b'\"") == src[:60].strip()):
                    continue          # ast.parse of the formula / the evaluator's own any([..]) / all([..])
                if ev == 'exec' and '<string>' in a:
                    continue          # execution of that inert any([..]) / all([..]) expression
                if ev == 'open' and ("'<unknown>'" in a or "'<string>'" in a):
                    continue          # traceback machinery looking for the pseudo file of a SyntaxError
                bad.append((ev, a))
            if bad:
                return None, f'side effect: {bad[:3]}'
            return (accepted, out), ''

        for fo in forms:
            src = render(fo['t'])
            res, err = evaluate(src, 'tree')
            n_eval += 8
            if res is None:
                v.violation(f'formula {src}: {err}', {'formula': src})
                continue
            accepted, out = res
            if not accepted or out != fo['major']:
                v.violation(f'formula {src}: definition major={fo["major"]} for the 8 assignments, code={out} '
                            f'(accepted={accepted})', {'formula': src, 'expected': fo['major'], 'got': out})
        v.sample({'formula': render(forms[len(forms) // 2]['t']), 'major_per_assignment': forms[len(forms) // 2]['major']})
        # (b') the same formulas on an application that grew after its status was first evaluated (p2 arrives with a
        # late joiner): the patterns must see the processes added since
        lv.close()
        lv = Live((False, False, False), formula='all("p.")', grown=True)
        for fo in forms:
            src = render(fo['t'])
            if '"p' not in src or '.' not in src:
                continue
            res, err = evaluate(src, 'tree')
            n_eval += 8
            if res is None:
                v.violation(f'formula {src} (grown application): {err}', {'formula': src})
                continue
            accepted, out = res
            if not accepted or out != fo['major']:
                v.violation(f'formula {src} on an application that grew after a first evaluation: definition '
                            f'major={fo["major"]} for the 8 assignments, code={out}',
                            {'formula': src, 'expected': fo['major'], 'got': out, 'grown': True})
        # (c) unsupported constructs: major failure whatever the process states, no error, no side effect
        # (a formula refused at load time leaves the application without formula: then the no-formula rule applies;
        #  with no required process that gives no major failure, so 'accepted' is told apart)
        n_h = 0
        for klass, sources in HOSTILE.items():
            for src in sources:
                res, err = evaluate(src, klass)
                n_h += 1
                n_eval += 8
                if res is None:
                    v.classify({'klass': klass}, f'unsupported construct [{klass}] {src!r}: {err}',
                               {'formula': src, 'klass': klass})
                    continue
                accepted, out = res
                if klass == 'valid_stress':
                    continue          # valid formulas (only totality is demanded here)
                if accepted and not all(out):
                    v.violation(f'unsupported construct [{klass}] {src!r} accepted and evaluated without major '
                                f'failure: {out}', {'formula': src, 'klass': klass})
        v.cov['hostile_sources'] = n_h
    finally:
        lv.close()
    # (d) the same through real rules files (Parser.load_status) for a sample of formulas
    sample = [render(fo['t']) for fo in forms[::max(1, len(forms) // (12 if tier == 'quick' else 60))]]
    sample += ['import os', '"p1".upper()', 'all()', '"("']
    for src in sample:
        from xml.sax.saxutils import escape
        try:
            lv2 = Live((False, False, False), formula=escape(src))
        except MachineryFailure:
            raise
        except Exception as exc:
            v.violation(f'rules file with operational_status {src!r}: boot failed {exc!r}', {'formula': src})
            continue
        try:
            try:
                lv2.set_states(['RUNNING', 'STOPPED', 'RUNNING'])
                info, err = lv2.info()
            except Exception as exc:
                info, err = None, f'update raised {exc!r}'
            n_eval += 1
            if info is None or err or lv2.c.errors:
                v.classify({'klass': 'rules_file'}, f'rules file with operational_status {src!r}: {err or lv2.c.errors[:1]}',
                           {'formula': src})
        finally:
            lv2.close()
    v.cov['evaluations'] = n_eval
    v.cov['traces_validated_against_impl'] = len(cases) + len(forms) + v.cov.get('hostile_sources', 0)
    v.cov['distinct_nontrivial'] = v.cov['traces_validated_against_impl']
    v.cov['exhaustive'] = True
    v.cov['rule'] = ('every state vector (3 processes x 9 displays x required) and every formula tree up to depth '
                     f'{depth} enumerated by TLC from AppStatus.tla, each realised once on real objects; plus '
                     'the table of unsupported construct classes; distinct by construction')
    v.assumptions += ['displays are produced by real process events from one peer instance; formulas are installed '
                      'through the real ApplicationRules.status_formula setter (a sample through real rules files)',
                      'hostile strings are covered as classes of constructs, not arbitrary byte strings']
    return v.finish()
