"""C02 - the Supvisors state only moves along the documented graph (OnGraph, NeedsMaster, SlaveAfterMaster)."""
import cluster_check as cc
import clusterlib as cl

LABELS = ['C02.OnGraph', 'C02.NeedsMaster', 'C02.SlaveAfterMaster']


def running_failure_scenarios(tier, seed, tail):
    """A process whose running_failure_strategy is RESTART / SHUTDOWN crashes at every micro-step of a late join (the
    Master passes through ELECTION when the joiner is activated): whatever the instant, the published states must
    stay on the documented graph."""
    from recorder import Driver
    out = []
    for strategy in ('RESTART', 'SHUTDOWN'):
        rules = ('<?xml version="1.0" encoding="UTF-8" standalone="no"?><root><application name="app">'
                 f'<programs><program name="r"><identifiers>*</identifiers><running_failure_strategy>{strategy}'
                 '</running_failure_strategy></program></programs></application></root>')
        cfg = cl.Config(n=3, sync=('TIMEOUT',))
        traces, recs = [], {}
        k = 0
        delays = range(0, 70, 6 if tier == 'quick' else 2)
        for delay in delays:
            c = cl.make_cluster(cfg, programs=[{'name': 'r', 'groups': ['app']}], rules_xml=rules)
            c.auto_orders = True
            d = Driver(c)
            try:
                d.boot('n1')
                d.boot('n2')
                for _ in range(8):
                    for n in ('n1', 'n2'):
                        d.tick(n)
                        d.drain()
                d.rpc('n2', 'startProcess', 'app:r', False, ns='supervisor')
                for _ in range(3):
                    for n in ('n1', 'n2'):
                        d.tick(n)
                        d.drain()
                d.boot('n3')
                micro = 0
                crashed = False
                for _ in range(14):
                    for n in list(c.nodes):
                        if not c.nodes[n].alive:
                            continue
                        steps = [lambda n=n: d.tick(n)]
                        while steps:
                            steps.pop(0)()
                            micro += 1
                            if micro >= delay and not crashed and c.nodes['n2'].alive:
                                crashed = True
                                d.env('exit', 'n2', 'app:r', 3)
                            pend = sorted(c.pending())
                            if pend:
                                steps.append(lambda pr=pend[0]: d.proxy(*pr))
                cl.fair_tail(d, cfg, 4)
            finally:
                c.close()
            traces.append(cl.mon_trace(k, d.rec, cfg, False, True))
            recs[k] = d.rec
            k += 1
        out.append((cfg, traces, recs))
    return out


def failure_at_distribution_entry(tier, seed, tail):
    """An auto-started application whose program cannot be placed (its rule names an instance that never came) and
    whose running_failure_strategy is RESTART / SHUTDOWN: the Starter gives the request up INSIDE the entry action of
    DISTRIBUTION, the forced FATAL event comes back synchronously and the ending state is requested from inside
    set_state (re-entrant call). Also with the program really FATAL beforehand, and after a later join (second
    DISTRIBUTION). The published states must stay on the documented graph and FINAL must be final."""
    from recorder import Driver
    out = []
    for strategy in ('RESTART', 'SHUTDOWN'):
        rules = ('<?xml version="1.0" encoding="UTF-8" standalone="no"?><root><application name="app">'
                 '<start_sequence>1</start_sequence>'
                 '<programs><program name="r"><identifiers>n3</identifiers><start_sequence>1</start_sequence>'
                 f'<required>true</required><running_failure_strategy>{strategy}'
                 '</running_failure_strategy></program></programs></application></root>')
        cfg = cl.Config(n=3, sync=('TIMEOUT',))
        traces, recs = [], {}
        k = 0
        for pre_fatal in (False, True):
            for late in (False, True):
                c = cl.make_cluster(cfg, programs=[{'name': 'r', 'groups': ['app']}], rules_xml=rules)
                c.auto_orders = True
                d = Driver(c)
                try:
                    d.boot('n1')
                    d.boot('n2')
                    if pre_fatal:
                        # the program is started by hand during the synchronization and exits unexpectedly
                        for n in ('n1', 'n2'):
                            d.tick(n)
                            d.drain()
                        d.rpc('n2', 'startProcess', 'app:r', False, ns='supervisor')
                        d.drain()
                        for n in ('n1', 'n2'):
                            d.tick(n)
                            d.drain()
                        d.env('exit', 'n2', 'app:r', 3)
                        d.drain()
                    for _ in range(14):
                        for n in ('n1', 'n2'):
                            if c.nodes[n].alive:
                                d.tick(n)
                                d.drain()
                    if late and any(nd.alive for nd in c.nodes.values()):
                        d.boot('n3')
                        for _ in range(10):
                            d.fair_round()
                    cl.fair_tail(d, cfg, 4)
                finally:
                    c.close()
                traces.append(cl.mon_trace(k, d.rec, cfg, False, True))
                recs[k] = d.rec
                k += 1
        out.append((cfg, traces, recs))
    return out


def orders_after_master_loss(tier, seed, tail):
    """supvisors.restart / shutdown issued on a non-Master at every micro-step after the Master crashed (before and
    after the loss is noticed, during the new election): whatever the instant, the published states stay on the
    documented graph (an ending state is only entered under a running Master)."""
    from recorder import Driver
    out = []
    cfg = cl.Config(n=3, sync=('LIST', 'TIMEOUT'))
    traces, recs = [], {}
    k = 0
    for order in ('restart', 'shutdown'):
        for micro in range(0, 36, 3 if tier == 'quick' else 1):
            c = cl.make_cluster(cfg)
            c.auto_orders = True
            d = Driver(c)
            try:
                for n in c.nodes:
                    d.boot(n)
                for _ in range(8):
                    d.fair_round()
                d.crash('n1')
                done = 0
                ring = ['n2', 'n3']
                while done < micro:
                    pend = sorted(c.pending())
                    if pend:
                        d.proxy(*pend[0])
                    else:
                        d.tick(ring[0])
                        ring = ring[1:] + ring[:1]
                    done += 1
                d.rpc('n2', order)
                cl.fair_tail(d, cfg, 6)
            finally:
                c.close()
            traces.append(cl.mon_trace(k, d.rec, cfg, False, True))
            recs[k] = d.rec
            k += 1
    out.append((cfg, traces, recs))
    return out


def main(tier, seed, replay=None):
    if replay:
        return cc.replay_file(replay)
    q = tier == 'quick'
    e1 = [cl.Config(n=2, crash=1, restart=1, user=1, conflict=1, rounds=8),
          cl.Config(n=2, crash=1, restart=1, user=1, rounds=10, fail='SHUTDOWN'),
          cl.Config(n=2, slow=[(2, 1)], user=1, rounds=7, fail='RESYNC', sync=('LIST',)),
          cl.Config(n=3, user=1, rounds=7, hold=True)]
    if not q:
        e1 += [cl.Config(n=2, slow=[(1, 2), (2, 1)], user=1, rounds=9),
               cl.Config(n=2, crash=1, restart=1, cut=1, user=1, rounds=10),
               cl.Config(n=2, slow=[(2, 1)], user=1, rounds=8, fail='RESYNC', sync=('LIST',)),
               cl.Config(n=3, crash=1, restart=1, user=1, rounds=10, fail='RESYNC'),
               cl.Config(n=3, crash=1, user=1, rounds=9, fail='SHUTDOWN'),
               cl.Config(n=2, sync=('USER', 'TIMEOUT'), user=2, crash=1, restart=1, rounds=10)]
    sim = [cl.Config(n=3, slow=[(1, 2), (1, 3), (1, 1)], crash=1, restart=1, user=2),
           cl.Config(n=2, slow=[(1, 2), (2, 1), (1, 1), (2, 2)], crash=1, restart=1, user=2, fail='SHUTDOWN')]
    rnd = [cl.Config(n=3, crash=1, restart=1, cut=1, user=2),
           cl.Config(n=3, crash=1, restart=1, cut=1, user=1, fail='SHUTDOWN'),
           cl.Config(n=3, crash=2, restart=2, user=1, fail='RESYNC', sync=('LIST',))]
    if not q:
        sim += [cl.Config(n=3, slow=[(2, 1), (3, 1)], crash=1, restart=1, user=2, fail='RESYNC')]
        rnd += [cl.Config(n=4, crash=2, restart=2, cut=1, user=2, sync=('LIST', 'TIMEOUT')),
                cl.Config(n=2, crash=1, restart=1, user=3, sync=('USER',))]
    return cc.run('C02', tier, seed, LABELS, [], e1, [], ['StepsC02'], sim, rnd,
                  n_beh=48 if q else 400, beh_depth=150, n_rnd=40 if q else 400, rnd_steps=250,
                  e1_timeout=600 if q else 1500, extra_scenarios=[running_failure_scenarios, orders_after_master_loss,
                                   failure_at_distribution_entry])
