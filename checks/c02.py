"""C02 - the Supvisors state only moves along the documented graph (OnGraph, NeedsMaster, SlaveAfterMaster)."""
import cluster_check as cc
import clusterlib as cl

LABELS = ['C02.OnGraph', 'C02.NeedsMaster', 'C02.SlaveAfterMaster']


def main(tier, seed, replay=None):
    if replay:
        return cc.replay_file(replay)
    q = tier == 'quick'
    e1 = [cl.Config(n=2, crash=1, restart=1, user=1, conflict=1, rounds=8),
          cl.Config(n=2, crash=1, restart=1, user=1, rounds=10, fail='SHUTDOWN'),
          cl.Config(n=2, slow=[(2, 1)], user=1, rounds=7, fail='RESYNC', sync=('LIST',)),
          cl.Config(n=3, user=1, rounds=7, hold=True)]
    if not q:
        e1 += [cl.Config(n=2, slow=[(1, 2), (2, 1)], user=1, rounds=9),
               cl.Config(n=2, crash=1, restart=1, cut=1, user=1, rounds=10),
               cl.Config(n=2, slow=[(2, 1)], user=1, rounds=8, fail='RESYNC', sync=('LIST',)),
               cl.Config(n=3, crash=1, restart=1, user=1, rounds=10, fail='RESYNC'),
               cl.Config(n=3, crash=1, user=1, rounds=9, fail='SHUTDOWN'),
               cl.Config(n=2, sync=('USER', 'TIMEOUT'), user=2, crash=1, restart=1, rounds=10)]
    sim = [cl.Config(n=3, slow=[(1, 2), (1, 3), (1, 1)], crash=1, restart=1, user=2),
           cl.Config(n=2, slow=[(1, 2), (2, 1), (1, 1), (2, 2)], crash=1, restart=1, user=2, fail='SHUTDOWN')]
    rnd = [cl.Config(n=3, crash=1, restart=1, cut=1, user=2),
           cl.Config(n=3, crash=1, restart=1, cut=1, user=1, fail='SHUTDOWN'),
           cl.Config(n=3, crash=2, restart=2, user=1, fail='RESYNC', sync=('LIST',))]
    if not q:
        sim += [cl.Config(n=3, slow=[(2, 1), (3, 1)], crash=1, restart=1, user=2, fail='RESYNC')]
        rnd += [cl.Config(n=4, crash=2, restart=2, cut=1, user=2, sync=('LIST', 'TIMEOUT')),
                cl.Config(n=2, crash=1, restart=1, user=3, sync=('USER',))]
    return cc.run('C02', tier, seed, LABELS, [], e1, [], ['StepsC02'], sim, rnd,
                  n_beh=48 if q else 400, beh_depth=150, n_rnd=40 if q else 400, rnd_steps=250,
                  e1_timeout=600 if q else 2400)
