"""C13 - isolation is permanent, reciprocal and airtight."""
import cluster_check as cc
import clusterlib as cl

LABELS = ['C13.Airtight', 'C13.NoTraffic', 'C13.Reciprocal', 'C13.OnlyAdmitted', 'C07.InstanceGraph',
          'C07.LocalIsolated']


def injection_scenarios(tier, seed, tail):
    """Adversarial messages handed to the real listener of n1 (SupervisorListener.on_remote_event, real JSON path):
    every publication / notification kind x claimed origins (exact identifier, nick only, nick in both fields, host
    name based identifier, wrong address) from (a) a peer n1 holds ISOLATED - nothing may change (Airtight) - and
    (b) a peer that has not passed the handshake (STOPPED / CHECKING / FAILED at n1) for process state (normal and
    forced), removal and disability events - no process view may change (OnlyAdmitted)."""
    import json
    from recorder import Driver, full_snapshot
    from supervisor import events
    RULES = ('<?xml version="1.0" encoding="UTF-8" standalone="no"?><root><application name="app"><programs>'
             '<program name="p"><identifiers>*</identifiers></program></programs></application></root>')
    cfg = cl.Config(n=3, auto_fence=True, sync=('LIST', 'TIMEOUT'))
    traces, recs = [], {}
    k = 0

    def proc_snapshot(c, n):
        snap = full_snapshot(c, n)
        return {kk: vv for kk, vv in snap.items() if kk.startswith('inner:') or kk in
                ('get_all_process_info', 'get_all_applications_info', 'get_conflicts')}

    def origins(c, peer):
        node = c.nodes[peer]
        ip, port = f'10.0.0.{node.host}', node.port
        return [[node.identifier, peer, [ip, port]], ['', peer, [ip, port]], [peer, peer, [ip, port]],
                [f'node{node.host}:{port}', peer, [ip, port]], [node.identifier, peer, ['10.9.9.9', port]],
                [node.identifier, 'nX', [ip, port]]]

    def messages(c, peer):
        ident = c.nodes[peer].identifier
        pev = {'identifier': ident, 'nick_identifier': peer, 'name': 'p', 'group': 'app', 'state': 20, 'now': 1.7e9,
               'now_monotonic': 99999.0, 'pid': 4242, 'expected': True, 'spawnerr': '', 'extra_args': '',
               'disabled': False}
        forced = dict(pev, state=200, forced=True, spawnerr='spoof')
        sm = {'identifier': ident, 'nick_identifier': peer, 'now_monotonic': 99999.0, 'fsm_statecode': 4,
              'fsm_statename': 'OPERATION', 'degraded_mode': False, 'discovery_mode': False,
              'master_identifier': ident, 'starting_jobs': False, 'stopping_jobs': False,
              'instance_states': {c.nodes[x].identifier: 'RUNNING' for x in c.nodes}}
        pubs = [('TICK', [0, {'when': 1.7e9, 'when_monotonic': 99999.0, 'sequence_counter': 777}]),
                ('PROCESS', [1, pev]), ('PROCESS_FORCED', [1, forced]),
                ('PROCESS_REMOVED', [3, {'name': 'p', 'group': 'app'}]),
                ('PROCESS_DISABILITY', [4, dict(pev, disabled=True)]), ('STATE', [7, sm])]
        nots = [('AUTH', [1, {'authorization': 1, 'now_monotonic': 99999.0}]), ('NSTATE', [2, sm]),
                ('ALL_INFO', [3, [dict(pev, start=1, stop=0, description='x', statename='RUNNING', uptime=1,
                                       start_monotonic=1.0, stop_monotonic=0.0, program_name='p', process_index=0,
                                       has_stdout=False, has_stderr=False, startsecs=1, stopwaitsecs=1)]]),
                ('FAILURE', [5, None])]
        return pubs, nots

    cfg_b = cl.Config(n=3, auto_fence=False, sync=('LIST', 'TIMEOUT'))
    traces_b, recs_b = [], {}
    for situation in ('isolated', 'stopped', 'failed', 'checking'):
        the_cfg = cfg if situation == 'isolated' else cfg_b
        c = cl.make_cluster(the_cfg, programs=[{'name': 'p', 'groups': ['app']}], rules_xml=RULES)
        d = Driver(c)
        try:
            for n in c.nodes:
                d.boot(n)
            for _ in range(8):
                d.fair_round()
            if situation == 'isolated':
                # (a) n3 crashed and was fenced: n1 holds it ISOLATED
                d.rpc('n2', 'startProcess', 'app:p', False, ns='supervisor')
                for _ in range(3):
                    d.fair_round()
                d.crash('n3')
                for _ in range(5):
                    d.fair_round()
                peer = 'n3'
            else:
                # (b) n1 is in OPERATION and displays app:p RUNNING on n3 (admitted); n2 has not passed the handshake
                d.rpc('n3', 'startProcess', 'app:p', False, ns='supervisor')
                for _ in range(3):
                    d.fair_round()
                d.crash('n2')
                peer = 'n2'
                for _ in range(8):
                    if d.rec.observe('n1')['inst'].get(peer) == {'failed': 'FAILED'}.get(situation, 'STOPPED'):
                        break
                    d.fair_round()
                if situation == 'checking':
                    d.boot('n2')
                    for _ in range(2):
                        d.tick('n2')
                        d.drain(only=lambda pr: pr in (('n2', 'n1'), ('n2', 'n2')))   # handshake of n1 left pending
            state = d.rec.observe('n1')['inst'].get(peer)
            expect = {'isolated': 'ISOLATED', 'stopped': 'STOPPED', 'checking': 'CHECKING',
                      'failed': 'FAILED'}[situation]
            if state != expect:
                raise cc.MachineryFailure(f'C13 injection harness: n1 sees {peer} {state}, wanted {expect}')
            if situation != 'isolated' and c.fsm_state('n1') != 'OPERATION':
                raise cc.MachineryFailure(f'C13 injection harness: n1 in {c.fsm_state("n1")}')
            pubs, nots = messages(c, peer)
            msgs = [('P', x) for x in pubs] + [('N', x) for x in nots]
            for typ, (label, body) in msgs:
                for origin in origins(c, peer):
                    before = full_snapshot(c, 'n1')
                    pbefore = proc_snapshot(c, 'n1')
                    d.rec.begin('Inject', 'n1', '', f'{label}')
                    with c.enter('n1'):
                        ev = events.RemoteCommunicationEvent('SupvisorsPublication' if typ == 'P' else 'SupvisorsNotification',
                                                             json.dumps([origin, body]))
                        c.nodes['n1'].supvisors.listener.on_remote_event(ev)
                    c.after_step('n1')
                    after = full_snapshot(c, 'n1')
                    pafter = proc_snapshot(c, 'n1')
                    # process events of every kind are only taken from CHECKED / RUNNING peers; a process table
                    # (ALL_INFO) is part of the handshake: expected from a CHECKING peer, not from a STOPPED / FAILED one
                    nonadm = situation != 'isolated' and (label.startswith('PROCESS') or
                                                          (label == 'ALL_INFO' and situation != 'checking'))
                    d.rec.end({'iso': situation == 'isolated', 'snapchg': before != after, 'nonadm': nonadm,
                               'procchg': pbefore != pafter})
        finally:
            c.close()
        if situation == 'isolated':
            traces.append(cl.mon_trace(k, d.rec, the_cfg, False, False))
            recs[k] = d.rec
        else:
            traces_b.append(cl.mon_trace(k, d.rec, the_cfg, False, False))
            recs_b[k] = d.rec
        k += 1
    return [(cfg, traces, recs), (cfg_b, traces_b, recs_b)]


def main(tier, seed, replay=None):
    if replay:
        return cc.replay_file(replay)
    q = tier == 'quick'
    fence = dict(auto_fence=True, sync=('LIST', 'TIMEOUT'))
    e1 = [cl.Config(n=2, crash=1, restart=1, cut=1, rounds=9, **fence),
          cl.Config(n=3, cut=1, rounds=6 if q else 8, **fence),
          cl.Config(n=3, mismatch=(3,), rounds=8, sync=('LIST', 'TIMEOUT')),
          cl.Config(n=2, mismatch=(2,), crash=1, restart=1, rounds=9, sync=('TIMEOUT',))]
    if not q:
        e1 += [cl.Config(n=3, crash=1, restart=1, rounds=10, **fence),
               cl.Config(n=3, cut=1, crash=1, rounds=9, **fence),
               cl.Config(n=2, slow=[(1, 2), (2, 1)], cut=1, rounds=9, **fence)]
    sim = [cl.Config(n=3, slow=[(1, 3), (2, 3), (3, 3)], crash=1, restart=1, cut=1, **fence),
           cl.Config(n=3, slow=[(3, 1), (3, 2)], mismatch=(3,), crash=1, restart=1, sync=('LIST', 'TIMEOUT'))]
    rnd = [cl.Config(n=3, crash=2, restart=2, cut=2, **fence),
           cl.Config(n=3, crash=1, restart=1, cut=1, mismatch=(2,), sync=('LIST', 'TIMEOUT')),
           cl.Config(n=3, crash=1, restart=1, mismatch=(3,), mm_opt='auto_fence', sync=('LIST', 'TIMEOUT')),
           cl.Config(n=3, crash=1, restart=1, mismatch=(1,), mm_opt='conciliation_strategy', sync=('LIST',)),
           cl.Config(n=3, crash=1, restart=1, mismatch=(2,), mm_opt='supvisors_failure_strategy', sync=('LIST',)),
           cl.Config(n=4, crash=2, restart=2, cut=2, **fence)]
    return cc.run('C13', tier, seed, LABELS, [], e1, [], ['StepsC13', 'StepsC07'], sim, rnd,
                  n_beh=48 if q else 400, beh_depth=150, n_rnd=24 if q else 300, rnd_steps=300,
                  e1_timeout=600 if q else 1500, inject=True, extra_scenarios=[injection_scenarios],
                  notes=['"only admitted peers feed process events" is decided with C12 (Replica)'])
