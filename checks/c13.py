"""C13 - isolation is permanent, reciprocal and airtight."""
import cluster_check as cc
import clusterlib as cl

LABELS = ['C13.Airtight', 'C13.NoTraffic', 'C13.Reciprocal', 'C07.InstanceGraph', 'C07.LocalIsolated']


def main(tier, seed, replay=None):
    if replay:
        return cc.replay_file(replay)
    q = tier == 'quick'
    fence = dict(auto_fence=True, sync=('LIST', 'TIMEOUT'))
    e1 = [cl.Config(n=2, crash=1, restart=1, cut=1, rounds=9, **fence),
          cl.Config(n=3, cut=1, rounds=6 if q else 8, **fence),
          cl.Config(n=3, mismatch=(3,), rounds=8, sync=('LIST', 'TIMEOUT')),
          cl.Config(n=2, mismatch=(2,), crash=1, restart=1, rounds=9, sync=('TIMEOUT',))]
    if not q:
        e1 += [cl.Config(n=3, crash=1, restart=1, rounds=10, **fence),
               cl.Config(n=3, cut=1, crash=1, rounds=9, **fence),
               cl.Config(n=2, slow=[(1, 2), (2, 1)], cut=1, rounds=9, **fence)]
    sim = [cl.Config(n=3, slow=[(1, 3), (2, 3), (3, 3)], crash=1, restart=1, cut=1, **fence),
           cl.Config(n=3, slow=[(3, 1), (3, 2)], mismatch=(3,), crash=1, restart=1, sync=('LIST', 'TIMEOUT'))]
    rnd = [cl.Config(n=3, crash=2, restart=2, cut=2, **fence),
           cl.Config(n=3, crash=1, restart=1, cut=1, mismatch=(2,), sync=('LIST', 'TIMEOUT')),
           cl.Config(n=4, crash=2, restart=2, cut=2, **fence)]
    return cc.run('C13', tier, seed, LABELS, [], e1, [], ['StepsC13', 'StepsC07'], sim, rnd,
                  n_beh=48 if q else 400, beh_depth=150, n_rnd=40 if q else 400, rnd_steps=300,
                  e1_timeout=600 if q else 2400, inject=True,
                  notes=['"only admitted peers feed process events" is decided with C12 (Replica)'])
