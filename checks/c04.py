"""C04 - start requests only go to eligible instances with spare load.

(a) sampled situations (who is RUNNING / knows / disables the program, identifiers rules, instance loads realised by
    really running processes, pending requests of the same start, expected_loading) realised on a real 3-instance /
    2-node cluster; the decision observed on the wire is judged by TLC (PlacementMon: OnlyEligible, NoResource,
    Starved) from the view the requester reports and the true Supervisor configurations.
(b) concurrent application starts (two applications of the same start sequence): the node load including ALL starts
    already requested must stay <= 100.
"""
import json
import os
import sys

sys.path.insert(0, os.path.join(os.path.dirname(os.path.abspath(__file__)), '..', 'harness'))
import vlib
import placement_check as pk
import placement_lib as pl
from vlib import MachineryFailure

LABELS = ['C04.OnlyEligible', 'C04.NoResource', 'C04.Starved']


def concurrent_starts(v, tier, seed):
    """Two applications started by the same DISTRIBUTION / restart_sequence evaluation, each with one 60 % program:
    whatever the strategy, the second request must account for the first one."""
    import clusterlib as cl
    from simcluster import Cluster
    recs = []
    for strategy in pl.STRATS:
        rules = ('<?xml version="1.0" encoding="UTF-8" standalone="no"?><root>'
                 + ''.join(f'<application name="{a}"><start_sequence>1</start_sequence>'
                           f'<starting_strategy>{strategy}</starting_strategy><programs><program name="{p}">'
                           '<identifiers>*</identifiers><start_sequence>1</start_sequence>'
                           '<expected_loading>60</expected_loading></program></programs></application>'
                           for a, p in (('appA', 'pa'), ('appB', 'pb'))) + '</root>')
        progs = [{'name': 'pa', 'groups': ['appA']}, {'name': 'pb', 'groups': ['appB']}]
        layout = {'n1': {'host': 1, 'port': 60001, 'programs': progs},
                  'n2': {'host': 2, 'port': 60002, 'programs': progs}}
        c = Cluster(layout, options={'synchro_options': 'STRICT'}, rules_xml=rules)
        try:
            c.boot_all()
            for _ in range(12):
                c.round()
            starts = [(w[3], w[5][0]) for w in c.wirelog if w[1] == 'push_req' and w[4] == 1]
            per_node = {}
            for tgt, ns in starts:
                per_node[tgt] = per_node.get(tgt, 0) + 60
            over = {n: l for n, l in per_node.items() if l > 100}
            recs.append({'strategy': strategy, 'starts': starts, 'over': over})
            if over:
                v.classify({'kind': 'concurrent_applications'},
                           f'concurrent application starts ({strategy}): requests {starts} commit {over} on one node',
                           {'scenario': 'concurrent_starts', 'strategy': strategy})
        finally:
            c.close()
    v.cov['traces_validated_against_impl'] += len(recs)
    v.cov['evaluations'] += len(recs)
    v.sample({'concurrent_starts': recs[0]})


def main(tier, seed, replay=None):
    v = vlib.Verdict('C04', tier, seed)
    if replay:
        with open(replay) as f:
            print(json.load(f))
        return 0
    pk.definition_selfcheck(v)
    recs = pk.collect(seed, 450 if tier == 'quick' else 6000)
    v.sample({k: x for k, x in recs[7].items() if k != '_res'})
    pk.judge(v, recs, LABELS)
    concurrent_starts(v, tier, seed)
    v.cov['distinct_nontrivial'] = pk.nontrivial(recs)
    v.cov['exhaustive'] = False
    v.cov['rule'] = ('seeded sample of the situation space (knows vector x identifiers rule x expected_loading x pending '
                     'placement x strategy x instance loads x disabled instance x down instance); distinct = distinct '
                     'observed (view, decision) records')
    v.assumptions += ['situations are realised on SimCluster with really running load processes; the oracle uses the '
                      'view reported by the requester XML-RPCs and the true Supervisor configuration of each instance',
                      'pending requests are those of the same application start (a sibling program of the same '
                      'sequence requested first); concurrent applications are covered by a dedicated scenario']
    return v.finish()
