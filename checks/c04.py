"""C04 - start requests only go to eligible instances with spare load.

(a) sampled situations (who is RUNNING / knows / disables the program, identifiers rules, instance loads realised by
    really running processes, pending requests of the same start, expected_loading) realised on a real 3-instance /
    2-node cluster; the decision observed on the wire is judged by TLC (PlacementMon: OnlyEligible, NoResource,
    Starved) from the view the requester reports and the true Supervisor configurations.
(b) concurrent application starts (two applications of the same start sequence): the node load including ALL starts
    already requested must stay <= 100.
"""
import json
import os
import sys

sys.path.insert(0, os.path.join(os.path.dirname(os.path.abspath(__file__)), '..', 'harness'))
import vlib
import placement_check as pk
import placement_lib as pl
from vlib import MachineryFailure

LABELS = ['C04.OnlyEligible', 'C04.NoResource', 'C04.Starved']


def concurrent_starts(v, tier, seed):
    """Two applications started by the same DISTRIBUTION / restart_sequence evaluation, each with one 60 % program:
    whatever the strategy, the second request must account for the first one."""
    import clusterlib as cl
    from simcluster import Cluster
    recs = []
    for strategy in pl.STRATS:
        rules = ('<?xml version="1.0" encoding="UTF-8" standalone="no"?><root>'
                 + ''.join(f'<application name="{a}"><start_sequence>1</start_sequence>'
                           f'<starting_strategy>{strategy}</starting_strategy><programs><program name="{p}">'
                           '<identifiers>*</identifiers><start_sequence>1</start_sequence>'
                           '<expected_loading>60</expected_loading></program></programs></application>'
                           for a, p in (('appA', 'pa'), ('appB', 'pb'))) + '</root>')
        progs = [{'name': 'pa', 'groups': ['appA']}, {'name': 'pb', 'groups': ['appB']}]
        layout = {'n1': {'host': 1, 'port': 60001, 'programs': progs},
                  'n2': {'host': 2, 'port': 60002, 'programs': progs}}
        c = Cluster(layout, options={'synchro_options': 'STRICT'}, rules_xml=rules)
        try:
            c.boot_all()
            for _ in range(12):
                c.round()
            starts = [(w[3], w[5][0]) for w in c.wirelog if w[1] == 'push_req' and w[4] == 1]
            per_node = {}
            for tgt, ns in starts:
                per_node[tgt] = per_node.get(tgt, 0) + 60
            over = {n: l for n, l in per_node.items() if l > 100}
            recs.append({'strategy': strategy, 'starts': starts, 'over': over})
            if over:
                v.classify({'kind': 'concurrent_applications'},
                           f'concurrent application starts ({strategy}): requests {starts} commit {over} on one node',
                           {'scenario': 'concurrent_starts', 'strategy': strategy})
        finally:
            c.close()
    v.cov['traces_validated_against_impl'] += len(recs)
    v.cov['evaluations'] += len(recs)
    v.sample({'concurrent_starts': recs[0]})


def _view_rec(c, d, program, allowed, L, strategy, target, fatal, errs, requester='n1'):
    """Situation record (PlacementMon format) for a 3-instance cluster with one instance per node."""
    names = list(c.nodes)
    infos = {c.nick(i['identifier']): i for i in c.call(requester, 'get_all_instances_info')}
    rec = {'n': 3, 'node': [1, 2, 3], 'running': [infos[n]['statename'] == 'RUNNING' for n in names],
           'load': [int(infos[n]['loading']) for n in names], 'knows': [], 'disabled': [], 'pend': [0, 0, 0], 'L': L,
           'strategy': strategy, 'req': int(requester[1]), 'allowed': allowed, 'target': target, 'fatal': fatal,
           'err': errs[0]['exc'][-200:] if errs else ''}
    for n in names:
        known, dis = False, False
        if c.nodes[n].alive:
            for ns, proc in c.nodes[n].processes():
                if ns.split(':')[1] == program:
                    known, dis = True, bool(proc.supvisors_config.program_config.disabled)
        rec['knows'].append(known)
        rec['disabled'].append(dis)
    return rec


def _decide(c, d, node, method, args, namespec, wait_rounds=0):
    mark = len(c.wirelog)
    c.errors = []
    res = d.rpc(node, method, *args)
    target = 0
    for k in range(wait_rounds + 1):
        for w in c.wirelog[mark:]:
            if w[1] == 'push_req' and w[4] == 1 and w[5][0] == namespec:
                target = int(w[3][1])
        if target or k == wait_rounds:
            break
        d.fair_round()      # the request is planned behind the group in progress: wait for its turn
    errs, c.errors = c.errors, []
    pi = c.rpc(node, 'get_process_info', namespec)
    fatal = pi[0] == 'ok' and pi[1][0]['statename'] == 'FATAL'
    return res, target, fatal, errs


def directed_situations(v, tier):
    """Situations that need a history: start_process of a program of a SINGLE_INSTANCE / SINGLE_NODE application whose
    start is in progress, with instances that the program's own rule allows but the application's rule does not.
    (A program disabled on an instance while the requester holds that instance CHECKED was tried too: the window is
    not reachable through the XML-RPC interface - the joiner is not in OPERATION then, and a non-Master that
    re-handshakes a peer is parked in ELECTION, known finding F2.)"""
    import clusterlib as cl
    from recorder import Driver
    from simcluster import Cluster
    recs = []
    cfg = cl.Config(n=3, sync=('LIST', 'TIMEOUT'))
    # (2) ------------------------------------------------------------------------------------------------------
    for dist, strategy in ((x, y) for x in ('SINGLE_INSTANCE', 'SINGLE_NODE')
                           for y in ('LESS_LOADED', 'LESS_LOADED_NODE', 'CONFIG')):
        # (for such an application the application's starting_strategy applies, whatever the request says)
        rules = ('<?xml version="1.0" encoding="UTF-8" standalone="no"?><root><application name="S">'
                 f'<distribution>{dist}</distribution><identifiers>n1</identifiers>'
                 f'<starting_strategy>{strategy}</starting_strategy><programs>'
                 '<program name="sa"><start_sequence>1</start_sequence><expected_loading>30</expected_loading></program>'
                 '<program name="tool"><expected_loading>10</expected_loading></program>'
                 '</programs></application></root>')
        progs = [{'name': 'sa', 'groups': ['S'], 'startsecs': 60}, {'name': 'tool', 'groups': ['S']}]
        for _ in (0,):
            c = cl.make_cluster(cfg, programs=progs, rules_xml=rules)
            d = Driver(c)
            try:
                for n in c.nodes:
                    d.boot(n)
                for _ in range(8):
                    d.fair_round()
                d.rpc('n1', 'start_application', strategy, 'S', False)
                d.drain()
                for _ in range(2):
                    d.fair_round()
                res, target, fatal, errs = _decide(c, d, 'n1', 'start_process', [strategy, 'S:tool', '', False], 'S:tool',
                                                   wait_rounds=20)
                rec = _view_rec(c, d, 'tool', [1], 10, strategy, target, fatal, errs)
                rec['_sit'] = {'directed': f'start_process during the start of a {dist} application', 'strategy': strategy}
                recs.append(rec)
            finally:
                c.close()
    pk.judge(v, recs, LABELS, tag='directed')
    v.cov['directed_situations'] = len(recs)


def main(tier, seed, replay=None):
    v = vlib.Verdict('C04', tier, seed)
    if replay:
        with open(replay) as f:
            print(json.load(f))
        return 0
    pk.definition_selfcheck(v)
    recs = pk.collect(seed, 450 if tier == 'quick' else 6000)
    v.sample({k: x for k, x in recs[7].items() if k != '_res'})
    pk.judge(v, recs, LABELS)
    concurrent_starts(v, tier, seed)
    directed_situations(v, tier)
    v.cov['distinct_nontrivial'] = pk.nontrivial(recs)
    v.cov['exhaustive'] = False
    v.cov['rule'] = ('seeded sample of the situation space (knows vector x identifiers rule x expected_loading x pending '
                     'placement x strategy x instance loads x disabled instance x down instance); distinct = distinct '
                     'observed (view, decision) records')
    v.assumptions += ['situations are realised on SimCluster with really running load processes; the oracle uses the '
                      'view reported by the requester XML-RPCs and the true Supervisor configuration of each instance',
                      'pending requests are those of the same application start (a sibling program of the same '
                      'sequence requested first); concurrent applications are covered by a dedicated scenario']
    return v.finish()
