"""C11 - process status is a deterministic synthesis of per-instance reports.

E1  ProcStatus.tla exhausted by TLC for K=2,3 (thorough: K=4): all histories of any length (finite abstract state).
E2  every transition of the K=2 state graph (and sampled K=3/K=4 behaviours) is replayed through the REAL
    Context/ProcessStatus of a live SimCluster node; the projected real state is compared with the model
    post-state (conformance; a mismatch alone is DRIFT).
E3a the observations of the real XML-RPC interface after each replayed operation are checked by TLC against the
    reference formulas (ProcStatusMon.tla). Only this produces VIOLATION.
"""
import json
import os
import random
import sys

sys.path.insert(0, os.path.join(os.path.dirname(os.path.abspath(__file__)), '..', 'harness'))
import vlib
from vlib import MachineryFailure

PID = 'C11'
STATECODES = {'STOPPED': 0, 'STARTING': 10, 'RUNNING': 20, 'BACKOFF': 30, 'STOPPING': 40, 'EXITED': 100,
              'FATAL': 200, 'UNKNOWN': 1000}
CODENAMES = {v: k for k, v in STATECODES.items()}


def write_cfg(path, k, log=False, fixed=True, invariants=True, sim=0):
    lines = ['SPECIFICATION Spec', f'CONSTANTS K = {k}', f'          FixedRemove = {"TRUE" if fixed else "FALSE"}',
             f'          D = {sim}', 'VIEW View']
    if log:
        lines.append('ACTION_CONSTRAINT LogStep')
    if sim:
        lines.append('INVARIANT SimLog')
    if invariants:
        lines += [f'INVARIANT {p}' for p in ('PExists', 'PRunning', 'PConflict', 'PShown', 'PForced', 'PInner',
                                               'NoErr')]
    with open(path, 'w') as f:
        f.write('\n'.join(lines) + '\n')


class Replayer:
    """Drives the real Context / ProcessStatus of node n1 of a K-node SimCluster (all instances RUNNING, FSM in
    OPERATION) with the operations of the model, and observes it through the real XML-RPC interface."""

    def __init__(self, k):
        from simcluster import Cluster
        self.k = k
        progs = [{'name': 'p1', 'groups': ['app']}]
        layout = {f'n{i}': {'host': i + 1, 'port': 60000 + i, 'programs': progs} for i in range(0, k + 1)}
        rules = ('<?xml version="1.0" encoding="UTF-8" standalone="no"?><root><application name="app">'
                 '<programs><program name="p1"><identifiers>*</identifiers></program></programs>'
                 '</application></root>')
        self.c = Cluster(layout, options={'synchro_options': 'STRICT'}, rules_xml=rules)
        self.c.boot_all()
        for _ in range(8):
            self.c.round()
        states = {n: self.c.fsm_state(n) for n in self.c.nodes}
        if set(states.values()) != {'OPERATION'}:
            raise MachineryFailure(f'C11 harness: cluster did not reach OPERATION: {states}')
        self.node = self.c.nodes['n0']
        self.ctx = self.node.supvisors.context
        self.ids = {j: self.c.nodes[f'n{j}'].identifier for j in range(1, k + 1)}
        # template payload as published by a real instance
        tmpl = self.c.call('n0', 'get_all_local_process_info')
        self.template = [i for i in tmpl if i['name'] == 'p1'][0]
        self.etime = {j: 100.0 for j in range(1, k + 1)}
        self.hard_reset()

    def close(self):
        self.c.close()

    def hard_reset(self):
        """Harness-level reset (does not rely on the code under test): forget the application everywhere."""
        self.ctx.applications.pop('app', None)
        for st in self.ctx.instances.values():
            st.processes.pop('app:p1', None)
        self.etime = {j: 100.0 for j in range(1, self.k + 1)}

    def _status(self, j):
        return self.ctx.instances[self.ids[j]]

    def apply(self, op):
        c = self.c
        o = op['o']
        with c.enter('n0'):
            if o in ('Add', 'Event'):
                j = op['j']
                self.etime[j] += 1.0
                if o == 'Add':
                    info = dict(self.template)
                    info.update({'state': STATECODES[op['s']], 'statename': op['s'], 'expected': op['e'],
                                 'now_monotonic': self.etime[j], 'now': 1.7e9 + self.etime[j], 'spawnerr': '',
                                 'description': 'sim'})
                    self.ctx.load_processes(self._status(j), [info], check_state=False)
                else:
                    payload = {'identifier': self.ids[j], 'nick_identifier': f'n{j}', 'name': 'p1', 'group': 'app',
                               'state': STATECODES[op['s']], 'now': 1.7e9 + self.etime[j],
                               'now_monotonic': self.etime[j], 'pid': 0, 'expected': op['e'], 'spawnerr': '',
                               'extra_args': '', 'disabled': False}
                    self.ctx.on_process_state_event(self._status(j), payload)
            elif o == 'Force':
                j = op['j']
                ident = self.ids[j] if j else ''
                base = self.etime.get(j, 100.0)
                etime = base if op['fresh'] else base - 0.5
                payload = {'identifier': ident, 'nick_identifier': f'n{j}' if j else '', 'group': 'app',
                           'name': 'p1', 'state': STATECODES[op['s']], 'forced': True, 'now': 1.7e9,
                           'now_monotonic': etime, 'pid': 0, 'expected': False, 'spawnerr': 'sim forced',
                           'extra_args': ''}
                self.ctx.on_process_state_event(self.ctx.local_status, payload)
            elif o == 'Invalidate':
                from supvisors.ttypes import SupvisorsInstanceStates as S
                st = self._status(op['j'])
                st._state = S.FAILED
                self.ctx.invalidate_failed()
                st._state = S.RUNNING
            elif o == 'Remove':
                self.ctx.on_process_removed_event(self._status(op['j']), {'group': 'app', 'name': 'p1'})
            else:
                raise MachineryFailure(f'unknown op {op}')

    def observe(self):
        """What a client sees (XML-RPC) + the projection used for conformance only."""
        c = self.c
        obs = {'err': ''}
        r = c.rpc('n0', 'get_process_info', 'app:p1')
        if r[0] == 'fault':
            obs.update({'exists': False, 'state': 'UNKNOWN', 'displayed': 'UNKNOWN', 'expected': True, 'ids': [],
                        'conflict': False, 'inner': [[] for _ in range(self.k)]})
            return obs, None
        if r[0] != 'ok':
            obs['err'] = str(r)
            obs.update({'exists': True, 'state': 'UNKNOWN', 'displayed': 'UNKNOWN', 'expected': True, 'ids': [],
                        'conflict': False, 'inner': [[] for _ in range(self.k)]})
            return obs, None
        p = r[1][0]
        rev = {v: k for k, v in self.ids.items()}
        confl = c.rpc('n0', 'get_conflicts')
        if confl[0] != 'ok':
            obs['err'] = str(confl)
            conflict = False
        else:
            conflict = any(x['process_name'] == 'p1' for x in confl[1])
        inner = []
        for j in range(1, self.k + 1):
            ri = c.rpc('n0', 'get_inner_process_info', self.ids[j], 'app:p1')
            if ri[0] == 'ok':
                inner.append([CODENAMES.get(ri[1][0]['state'], str(ri[1][0]['state'])), bool(ri[1][0]['expected'])])
            else:
                inner.append([])
        proc = self.ctx.applications['app'].processes['p1']
        obs.update({'exists': True, 'state': CODENAMES.get(int(proc.state), str(proc.state)),
                    'displayed': p['statename'], 'expected': bool(p['expected_exit']),
                    'ids': sorted(rev[i] for i in p['identifiers'] if i in rev) +
                    [99 for i in p['identifiers'] if i not in rev],
                    'conflict': conflict, 'inner': inner})
        # projection (internal attributes, conformance only)
        order = sorted(proc.info_map, key=lambda i: proc.info_map[i]['local_mtime'])
        proj = {'info': inner, 'recv': [rev[i] for i in order],
                'running': sorted(rev.get(i, 99) for i in proc.running_identifiers),
                'state': obs['state'], 'expected': obs['expected'],
                'forced': 'NONE' if proc.forced_state is None else CODENAMES[int(proc.forced_state)]}
        return obs, proj


def canon(st):
    return json.dumps(st, sort_keys=True)


def harvest_errors(rp):
    errs = rp.c.errors
    rp.c.errors = []
    return errs


def replay_graph(v, k, transitions, seed, budget=None):
    """transitions: list of {pre, op, post, rpre}. Replays each on the real code via the shortest path."""
    from collections import deque
    init = canon(transitions[0]['pre'])
    # BFS tree for shortest paths (deterministic: the log is in BFS order already)
    parent = {init: None}
    by_pre = {}
    for t in transitions:
        cp, cq = canon(t['pre']), canon(t['post'])
        by_pre.setdefault(cp, []).append(t)
        if cq not in parent and cp in parent:
            parent[cq] = (cp, t['op'])
    # transitions whose pre-state was not reached yet when logged (should not happen in BFS order)
    changed = True
    while changed:
        changed = False
        for t in transitions:
            cp, cq = canon(t['pre']), canon(t['post'])
            if cq not in parent and cp in parent:
                parent[cq] = (cp, t['op'])
                changed = True

    def path_to(cs):
        ops = []
        while parent[cs] is not None:
            cs, o = parent[cs]
            ops.append(o)
        return list(reversed(ops))

    rp = Replayer(k)
    recs = []
    todo = list(by_pre.items())
    if budget and sum(len(x[1]) for x in todo) > budget:
        rnd = random.Random(seed)
        rnd.shuffle(todo)
    n = 0
    try:
        for cp, ts in todo:
            if cp not in parent:
                raise MachineryFailure('transition log: unreachable pre-state')
            prefix = path_to(cp)
            for t in ts:
                if json.loads(cp)['err']:
                    continue
                rp.hard_reset()
                for o in prefix:
                    rp.apply(o)
                harvest_errors(rp)
                rp.apply(t['op'])
                obs, proj = rp.observe()
                errs = harvest_errors(rp)
                if errs:
                    obs['err'] = errs[0]['exc'][-300:]
                recs.append({'rpre': t['rpre'], 'op': t['op'], 'obs': obs, 'path': prefix})
                # conformance
                post = t['post']
                if not obs['err'] and not post['err']:
                    exp = {'info': post['info'], 'recv': post['recv'], 'running': sorted(post['running']),
                           'state': post['state'], 'expected': post['expected'], 'forced': post['forced']}
                    exists = any(x for x in post['info'])
                    if exists and proj != exp:
                        v.drift.append(f'K={k} path={prefix + [t["op"]]} model={exp} code={proj}')
                    elif not exists and obs['exists']:
                        v.drift.append(f'K={k} path={prefix + [t["op"]]} model: deleted, code: exists')
                elif bool(obs['err']) != bool(post['err']):
                    v.drift.append(f'K={k} path={prefix + [t["op"]]} model err={post["err"]} code err={obs["err"]}')
                n += 1
            if budget and n >= budget:
                break
    finally:
        rp.close()
    return recs


def replay_paths(v, k, paths):
    """paths: list of op lists (behaviours from TLC -simulate). Every step is observed."""
    rp = Replayer(k)
    recs = []
    try:
        for path in paths:
            rp.hard_reset()
            harvest_errors(rp)
            done = []
            for (rpre, op, post) in path:
                rp.apply(op)
                obs, proj = rp.observe()
                errs = harvest_errors(rp)
                if errs:
                    obs['err'] = errs[0]['exc'][-300:]
                recs.append({'rpre': rpre, 'op': op, 'obs': obs, 'path': list(done)})
                done.append(op)
                if obs['err']:
                    break
    finally:
        rp.close()
    return recs


def monitor(v, k, recs, label):
    """E3a: TLC evaluates the reference formulas on the recorded observations."""
    if not recs:
        return
    sc = vlib.scratch()
    # dedupe identical (rpre, op, obs) triples, keep one path for the replay file
    uniq = {}
    for r in recs:
        key = canon({'rpre': r['rpre'], 'op': r['op'], 'obs': r['obs']})
        uniq.setdefault(key, r)
    ulist = list(uniq.values())
    CH = 40000
    for c0 in range(0, len(ulist), CH):
        chunk = ulist[c0:c0 + CH]
        path = os.path.join(sc, f'recs_{label}_{c0}.json')
        with open(path, 'w') as f:
            json.dump([{'rpre': r['rpre'], 'op': r['op'], 'obs': r['obs']} for r in chunk], f)
        cfg = os.path.join(sc, f'mon_{label}.cfg')
        with open(cfg, 'w') as f:
            f.write(f'CONSTANTS K = {k}\n')
        res = vlib.run_tlc('ProcStatusMon', cfg, workers=1, env={'RECS_FILE': path}, timeout=1800, heap='8g')
        if not res.ok:
            raise MachineryFailure(f'ProcStatusMon failed: {res.error_text[:2000]}')
        ns = [l for l in res.stdout.splitlines() if l.startswith('"N ')]
        if not ns or int(json.loads(ns[0])[2:]) != len(chunk):
            raise MachineryFailure('ProcStatusMon did not read all records')
        for bad in vlib.tlc_prints(res.stdout, 'V '):
            r = chunk[bad['i'] - 1]
            v.violation(f'K={k} {sorted(bad["failed"])} after path={r["path"]} op={r["op"]} obs={r["obs"]}',
                        {'k': k, 'path': r['path'] + [r['op']], 'failed': sorted(bad['failed'])})
        listed = {f['id']: f for f in vlib.known_for(PID)}
        for hit in vlib.tlc_prints(res.stdout, 'K '):
            r = chunk[hit['i'] - 1]
            for fid in hit['known']:
                if fid in listed:
                    v.known(fid, listed[fid]['what'])
                else:
                    v.violation(f'K={k} signature {fid} (not a listed finding) after path={r["path"]} op={r["op"]} '
                                f'obs={r["obs"]}', {'k': k, 'path': r['path'] + [r['op']], 'failed': [fid]})
        v.cov['traces_validated_against_impl'] += len(chunk)
    v.cov['evaluations'] += len(recs)


def parse_sim_traces(stdout):
    """Behaviours printed by the simulate config: one 'B <json>' line per behaviour end (list of steps)."""
    return vlib.tlc_prints(stdout, 'B ')


def main(tier, seed, replay=None):
    v = vlib.Verdict(PID, tier, seed)
    sc = vlib.scratch()
    if replay:
        with open(replay) as f:
            rep = json.load(f)['replay']
        k = rep['k']
        rp = Replayer(k)
        ok = True
        try:
            for o in rep['path']:
                rp.apply(o)
                obs, proj = rp.observe()
                print(o, '->', obs)
        finally:
            rp.close()
        return 0
    # E1: exhaustive model checking
    for k in ((2, 3) if tier == 'quick' else (2, 3, 4)):
        cfg = os.path.join(sc, f'ps_k{k}.cfg')
        write_cfg(cfg, k)
        r = vlib.run_tlc('ProcStatus', cfg, timeout=3000, coverage=(k == 2))
        v.add_tlc(f'ProcStatus K={k} exhaustive', r)
        if r.violated:
            # the design itself breaks a property: confirm on the real code through the replay below
            v.notes.append(f'model K={k} violates {r.violated}')
        elif not r.ok:
            raise MachineryFailure(f'TLC K={k}: {r.error_text[:2000]}')
    v.cov['exhaustive'] = True
    # E2/E3: transition log of K=2, replay of every transition
    cfg = os.path.join(sc, 'ps_k2_log.cfg')
    write_cfg(cfg, 2, log=True, invariants=False)
    r = vlib.run_tlc('ProcStatus', cfg, workers=1, timeout=1800)
    if not r.ok:
        raise MachineryFailure(f'TLC log run: {r.error_text[:2000]}')
    trans = vlib.tlc_prints(r.stdout, 'T ')
    if len(trans) != r.generated - 1:
        raise MachineryFailure(f'transition log incomplete: {len(trans)} lines vs {r.generated} states generated')
    recs = replay_graph(v, 2, trans, seed)
    v.cov['k2_transitions_replayed'] = len(recs)
    v.sample({'path': recs[len(recs) // 2]['path'], 'op': recs[len(recs) // 2]['op'],
              'obs': recs[len(recs) // 2]['obs']})
    monitor(v, 2, recs, 'k2')
    # sampled behaviours for K=3 (quick) / K=3,4 (thorough): random walks over the TLC transition relation
    for k, n in (((3, 400),) if tier == 'quick' else ((3, 4000), (4, 4000))):
        cfg = os.path.join(sc, f'ps_k{k}_sim.cfg')
        depth = 24
        write_cfg(cfg, k, invariants=False, sim=depth)
        r = vlib.run_tlc('ProcStatus', cfg, workers=8, timeout=900, simulate=f'num={n // 8}', depth=depth + 1,
                         seed=seed)
        behs = vlib.tlc_prints(r.stdout, 'B ')
        if not behs:
            raise MachineryFailure(f'no simulated behaviour for K={k}: {r.stdout[-1500:]}')
        paths = [[(st['rpre'], st['op'], st['post']) for st in b] for b in behs]
        recs = replay_paths(v, k, paths)
        v.cov[f'k{k}_behaviours_replayed'] = len(paths)
        v.sample({'k': k, 'behaviour': [s[1] for s in paths[0]][:12]})
        monitor(v, k, recs, f'k{k}')
    v.cov['distinct_nontrivial'] = v.cov['traces_validated_against_impl']
    v.cov['rule'] = ('E1: TLC exhausts ProcStatus.tla (all histories, finite abstract state); E2: every transition '
                     'of the K=2 graph + simulated K>=3 behaviours replayed on the real Context/ProcessStatus; '
                     'E3a: distinct (ghost, op, observation) triples checked by TLC against ProcStatusRef')
    v.assumptions += ['operations are applied through Context.load_processes / on_process_state_event / '
                      'invalidate_failed / on_process_removed_event of a live SimCluster node (observer n0 of a K+1-node cluster in OPERATION; the K reporting instances are its peers)',
                      'event times are harness-generated ranks; expected=False only for EXITED/FATAL reports']
    return v.finish()
