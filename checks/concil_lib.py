"""Conciliation scenarios (C05) on real cores.

3 instances (n1 is the Master), application `app` (managed: d1, d2 may be duplicated, e1 never is) and group `unm`
(not in the rules file: unmanaged, u1 gets duplicated too). Duplicates appear through direct Supervisor starts at
scripted rounds or through a partition during which the Master restarts a lost process (RESTART_PROCESS) and that
heals afterwards. Every step records the requests pushed, the true Supervisor process table of every instance (state
and start time) and what every instance reports through get_all_process_info (C12 uses the same records).
"""
import os
import sys

sys.path.insert(0, os.path.join(os.path.dirname(os.path.abspath(__file__)), '..', 'harness'))
from vlib import MachineryFailure

PSTATE = {0: 'STOPPED', 10: 'STARTING', 20: 'RUNNING', 30: 'BACKOFF', 40: 'STOPPING', 100: 'EXITED', 200: 'FATAL',
          1000: 'UNKNOWN'}
PROCS = ['app:d1', 'app:d2', 'app:e1', 'unm:u1']
MANAGED = [True, True, True, False]


def rules_xml(sc):
    x = ('<?xml version="1.0" encoding="UTF-8" standalone="no"?><root><application name="app">'
         '<start_sequence>0</start_sequence><programs>')
    for p in ('d1', 'd2', 'e1'):
        x += (f'<program name="{p}"><identifiers>*</identifiers>'
              f'<running_failure_strategy>{sc.get("rfs", {}).get(p, "CONTINUE")}</running_failure_strategy></program>')
    return x + '</programs></application></root>'


def programs(sc):
    never = set(sc.get('neverstop', []))
    return [{'name': ns.split(':')[1], 'groups': [ns.split(':')[0]], 'startsecs': 1,
             'stopwaitsecs': 100000 if ns in never else 10} for ns in PROCS]


class Scenario:
    def __init__(self, sc):
        import clusterlib as cl
        from simcluster import Cluster
        from recorder import Driver
        self.sc = sc
        n = sc.get('n', 3)
        cfg = cl.Config(n=n, sync=('LIST', 'TIMEOUT'), t=sc.get('t', 2), auto_fence=bool(sc.get('auto_fence')))
        self.cfg = cfg
        opts = cfg.options()
        opts['conciliation_strategy'] = sc['strategy']
        self.c = Cluster(cfg.layout(programs(sc)), options=opts, rules_xml=rules_xml(sc))
        self.c.auto_orders = True
        self.d = Driver(self.c)
        self.extra = []
        self.rnd = 0
        self.phase_missed = False
        self.c.observers.append(self)

    def close(self):
        self.c.close()

    def on_wire(self, rec):
        pass

    def snapshot(self):
        c = self.c
        names = list(c.nodes)
        truth, started = [], []
        for ns in PROCS:
            row, srow = [], []
            for n in names:
                node = c.nodes[n]
                st, t0 = 'NONE', 0
                if node.alive:
                    try:
                        proc = node.process(ns)
                        st = PSTATE.get(int(proc.state), 'UNKNOWN')
                        t0 = int(proc.laststart % 100000)
                    except KeyError:
                        pass
                row.append(st)
                srow.append(t0)
            truth.append(row)
            started.append(srow)
        views, run = [], []
        for n in names:
            node = c.nodes[n]
            vrow = ['NONE'] * len(PROCS)
            rrow = [[] for _ in PROCS]
            if node.alive:
                res = c.rpc(n, 'get_all_process_info')
                if res[0] == 'fault' and res[1] == 101:
                    vrow = ['NA'] * len(PROCS)        # the status XML-RPCs are not served in this Supvisors state
                    res = ('ok', [])
                if res[0] != 'ok':
                    raise MachineryFailure(f'concil harness: get_all_process_info on {n}: {res}')
                for info in res[1]:
                    ns = f'{info["application_name"]}:{info["process_name"]}'
                    if ns in PROCS:
                        k = PROCS.index(ns)
                        vrow[k] = info['statename']
                        rrow[k] = sorted(int(c.nick(i)[1]) for i in info['identifiers'])
            views.append(vrow)
            run.append(rrow)
        return {'truth': truth, 'started': started, 'views': views, 'run': run, 'rnd': self.rnd}

    def sync(self):
        while len(self.extra) < len(self.d.rec.steps):
            self.extra.append(self.snapshot())

    def deliver_all(self):
        c = self.c
        guard = 0
        while guard < 5000:
            guard += 1
            pend = sorted(c.pending())
            if not pend:
                break
            self.d.proxy(*pend[0])
            self.sync()

    def behave(self):
        c = self.c
        never = set(self.sc.get('neverstop', []))
        for ns in PROCS:
            for n, node in c.nodes.items():
                if not node.alive:
                    continue
                try:
                    proc = node.process(ns)
                except KeyError:
                    continue
                if proc.state == 40 and proc.pid and ns not in never:
                    self.d.env('killed', n, ns)
                    self.sync()

    def round(self):
        c = self.c
        self.rnd += 1
        for n in list(c.nodes):
            if c.nodes[n].alive:
                self.d.tick(n)
                self.sync()
                self.deliver_all()
        self.behave()
        self.deliver_all()

    def act(self, a):
        d = self.d
        kind = a[0]
        if kind == 'start':
            if self.c.nodes[a[1]].alive:
                d.rpc(a[1], 'startProcess', a[2], False, ns='supervisor')
        elif kind == 'stop':
            if self.c.nodes[a[1]].alive:
                d.rpc(a[1], 'stopProcess', a[2], False, ns='supervisor')
        elif kind == 'cut':
            d.cut(a[1], a[2])
            d.cut(a[2], a[1])
            self.cuts = getattr(self, 'cuts', []) + [(a[1], a[2]), (a[2], a[1])]
        elif kind == 'heal':
            for x, y in getattr(self, 'cuts', []):
                d.heal(x, y)
            self.cuts = []
        elif kind == 'crash':
            d.crash(a[1])
        elif kind == 'exit':
            if self.c.nodes[a[1]].alive and self.c.nodes[a[1]].process(a[2]).pid:
                d.env('exit', a[1], a[2], 1)
        else:
            raise MachineryFailure(f'concil harness: unknown action {a}')
        self.sync()
        if kind in ('start', 'stop', 'exit') and not self.sc.get('burst'):
            self.deliver_all()

    def master_phase(self):
        st = self.d.rec.obs.get('n1', {})
        return st.get('fsm'), any(st.get('jobs', [False, False]))

    def run(self):
        sc, c, d = self.sc, self.c, self.d
        for n in c.nodes:
            d.boot(n)
            self.sync()
        for _ in range(sc.get('pre_rounds', 8)):
            self.round()
        script = sorted(sc.get('script', []), key=lambda x: x[0])
        self.start_step = len(d.rec.steps)
        self.skel_pos, self.skel_wait, self.skel_next = 0, 0, 0
        held = []          # actions waiting for a phase of the Master: ['when', phase, action...]
        for r in range(sc.get('rounds', 24)):
            for item in [x for x in script if x[0] == r]:
                if item[1] == 'when':
                    held.append(item[2:])
                else:
                    self.act(item[1:])
            for h in list(held):
                fsm, jobs = self.master_phase()
                if (h[0] == 'conciliating' and fsm == 'CONCILIATION' and jobs) or \
                        (h[0] == 'conciliation' and fsm == 'CONCILIATION'):
                    held.remove(h)
                    self.act(h[1:])
            # skeleton of a behaviour of the design model: user starts issued in order, each in the phase of the
            # Master in which the model made it (given up after 5 rounds: the run is then not compared)
            skel = sc.get('skeleton', [])
            issued = False
            while self.skel_pos < len(skel):
                e = skel[self.skel_pos]
                fsm, jobs = self.master_phase()
                match = (fsm == e['fsm'] and (not jobs) == e['idle'])
                if (issued and e['seen']) or (e['seen'] and self.rnd < self.skel_next):
                    break
                if not match and self.skel_wait < 5:
                    self.skel_wait += 1
                    break
                if not match:
                    self.phase_missed = True
                self.skel_wait = 0
                self.skel_pos += 1
                burst = not e['seen'] and issued
                self.d.rpc(f'n{e["i"]}', 'startProcess', e['p'], False, ns='supervisor')
                self.sync()
                if self.skel_pos < len(skel) and not skel[self.skel_pos]['seen']:
                    pass            # the next start happens before the Master hears of this one
                else:
                    self.deliver_all()
                issued = True
                self.skel_next = self.rnd + 2        # start dates two tick periods apart are ordered for sure
            self.round()
        return self.to_trace()

    def to_trace(self):
        d, c = self.d, self.c
        names = list(c.nodes)
        if len(self.extra) != len(d.rec.steps):
            raise MachineryFailure(f'concil harness: {len(self.extra)} snapshots for {len(d.rec.steps)} steps')
        steps = []
        for st, ex in zip(d.rec.steps, self.extra):
            reqs = []
            for src, dst, typ, what, arg, iso in st['push']:
                if typ == 'R' and what in (1, 2) and arg in PROCS:
                    reqs.append(['START' if what == 1 else 'STOP', int(src[1]), int(dst[1]), PROCS.index(arg) + 1])
            steps.append({'a': st['a'], 'n': int(st['n'][1]) if st['n'] else 0, 'user': bool(st.get('user')),
                          'reqs': reqs, 'truth': ex['truth'], 'started': ex['started'], 'views': ex['views'],
                          'run': ex['run'],
                          'jobs': [st['st'][n]['jobs'] for n in names],
                          'fsm': [st['st'][n]['fsm'] for n in names],
                          'master': [int(st['st'][n]['master'][1]) if st['st'][n]['master'] else 0 for n in names],
                          'alive': [bool(st['st'][n]['alive']) for n in names],
                          'inst': [[st['st'][n]['inst'].get(m, 'STOPPED') for m in names] for n in names],
                          'rnd': ex['rnd'],
                          'err': bool(st['err']), 'errtxt': (st['err'][0][-300:] if st['err'] else '')})
        sc = self.sc
        return {'strategy': sc['strategy'], 'phase_missed': self.phase_missed, 'rfs': [sc.get('rfs', {}).get(p.split(':')[1], 'CONTINUE') for p in PROCS],
                'managed': MANAGED, 'n': len(names), 'steps': steps, 'start_step': self.start_step,
                'faults': any(x[1] in ('cut', 'crash') or (x[1] == 'when' and x[3] in ('cut', 'crash'))
                              for x in sc.get('script', [])),
                'userstops': any('stop' in x or 'exit' in x for x in sc.get('script', [])),
                'neverstop': [PROCS.index(x) + 1 for x in sc.get('neverstop', [])]}
