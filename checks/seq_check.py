"""Shared driver of C03 / C09 / C10: seeded sequencing scenarios on real cores judged by TLC (SequencerMon)."""
import json
import os
import random
import sys

sys.path.insert(0, os.path.join(os.path.dirname(os.path.abspath(__file__)), '..', 'harness'))
import vlib
import seq_lib as sl
from vlib import MachineryFailure

BEH_START = ['normal', 'normal', 'normal', 'spawnerr', 'earlyexit', 'exit1', 'lostreq']


def gen_start_scenario(rnd, drops=True):
    x = rnd.random()
    n_apps = 1 if x < 0.5 else (2 if x < 0.8 else 3)
    two_apps = n_apps > 1
    apps = []
    names = iter(['p1', 'p2', 'p3', 'q1', 'q2', 'q3', 'r1', 'r2', 'r3'])
    for ai in range(n_apps):
        procs = []
        for _ in range(2 if two_apps else 3):
            seq = rnd.choice([0, 1, 1, 2, 2, 3])
            we = rnd.random() < 0.2 and seq > 0
            beh = rnd.choice(BEH_START)
            if we:
                beh = rnd.choice(['exit0', 'exit0', 'exit1', 'normal', 'spawnerr'])
            procs.append({'name': next(names), 'seq': seq, 'wait_exit': we, 'required': rnd.random() < 0.5,
                          'target': rnd.choice(['n2', 'n2', 'n2', 'n1']), 'behaviour': beh,
                          'startsecs': rnd.choice([1, 1, 5])})
            if rnd.random() < 0.25:
                procs[-1]['strategy'] = rnd.choice(['ABORT', 'STOP', 'CONTINUE'])
        apps.append({'name': 'ABC'[ai], 'seq': rnd.choice([0, 1, 1, 2]) if two_apps else rnd.choice([0, 1, 1]),
                     'strategy': rnd.choice(['ABORT', 'STOP', 'CONTINUE']), 'procs': procs})
    trig_kind = rnd.choice(['distribution', 'distribution', 'start_application', 'start_application',
                            'restart_sequence', 'restart_application'])
    app = rnd.choice(apps)['name']
    node = rnd.choice(['n1', 'n1', 'n2'])
    trig = {'distribution': ('distribution',),
            'start_application': ('start_application', node, 'start_application', ['CONFIG', app, False]),
            'restart_application': ('restart_application', node, 'restart_application', ['CONFIG', app, False]),
            'restart_sequence': ('restart_sequence', node, 'restart_sequence', [False])}[trig_kind]
    drops_l = []
    all_procs = [f'{a["name"]}:{p["name"]}' for a in apps for p in a['procs']]
    for ns in all_procs:
        for stt in ('STARTING', 'RUNNING', 'FATAL', 'BACKOFF', 'EXITED'):
            if drops and rnd.random() < 0.06:
                drops_l.append([ns, stt])
    sc = {'apps': apps, 'trigger': trig, 'drops': drops_l, 'rounds': 18, 'n': 2}
    if rnd.random() < 0.2:
        sc['lose'] = ['n2', rnd.choice([5, 6, 7, 8]) if trig_kind == 'distribution' else rnd.choice([0, 1, 2, 3])]
        sc['rounds'] = 22
    if 'lose' not in sc and rnd.random() < 0.12:
        remote = [ns for ns, a_p in ((f'{a["name"]}:{p["name"]}', p) for a in apps for p in a['procs'])
                  if a_p['target'] == 'n2' and a_p['seq'] > 0]
        if remote:
            sc['lose_at_req'] = rnd.choice(remote)
            sc['rounds'] = 22
    if trig_kind == 'distribution':
        sc['pre_rounds'] = 7 + 18 + (8 if n_apps == 3 else 0)
        sc['rounds'] = 4
    decorate(rnd, sc)
    return sc


def decorate(rnd, sc):
    """Supervisors not started together (tick counters differ) / programs not configured on the driving instance."""
    if rnd.random() < 0.15:
        sc['skew'] = [rnd.choice(['n1', 'n2']), rnd.choice([6, 12])]
    if rnd.random() < 0.15:
        # a program only configured where it is meant to run
        sc['absent'] = [[n, f'{a["name"]}:{p["name"]}'] for a in sc['apps'] for p in a['procs']
                        for n in ('n1', 'n2', 'n3')[:sc.get('n', 2)] if n != p['target'] and rnd.random() < 0.6]


def gen_stop_scenario(rnd):
    apps = []
    names = iter(['p1', 'p2', 'p3', 'q1', 'q2', 'q3'])
    pre = []
    two_apps = rnd.random() < 0.5
    for ai in range(2 if two_apps else 1):
        procs = []
        for _ in range(2 if two_apps else 3):
            seq = rnd.choice([0, 1, 2])
            p = {'name': next(names), 'seq': seq, 'target': rnd.choice(['n2', 'n2', 'n1', 'n3']),
                 'behaviour': rnd.choice(['normal', 'normal', 'normal', 'neverstop']),
                 'stopwaitsecs': rnd.choice([1, 5, 10])}
            if rnd.random() < 0.5:
                p['stopseq'] = rnd.choice([0, 1, 2, 3])
            procs.append(p)
            if rnd.random() < 0.85:
                pre.append([p['target'], f'{"AB"[ai]}:{p["name"]}'])
        a = {'name': 'AB'[ai], 'seq': 0, 'procs': procs}
        if rnd.random() < 0.6:
            a['stopseq'] = rnd.choice([0, 1, 2])
        apps.append(a)
    kind = rnd.choice(['stop_application', 'restart', 'shutdown', 'restart', 'restart_application'])
    node = rnd.choice(['n1', 'n2', 'n3'])
    app = rnd.choice(apps)['name']
    trig = {'stop_application': ('stop_application', node, 'stop_application', [app, False]),
            'restart_application': ('restart_application', node, 'restart_application', ['CONFIG', app, False]),
            'restart': ('restart', node, 'restart', []),
            'shutdown': ('shutdown', node, 'shutdown', [])}[kind]
    drops = []
    for a in apps:
        for p in a['procs']:
            for stt in ('STOPPING', 'STOPPED'):
                if rnd.random() < 0.08:
                    drops.append([f'{a["name"]}:{p["name"]}', stt])
    sc = {'apps': apps, 'trigger': trig, 'drops': drops, 'rounds': 20, 'n': 3, 'pre_start': pre, 'settle_rounds': 3}
    if rnd.random() < 0.2:
        sc['lose'] = [rnd.choice(['n2', 'n3']), rnd.choice([0, 1, 2])]
    if kind in ('restart', 'shutdown') and rnd.random() < 0.2:
        # the Master is busy starting an application (two groups, the first one slow to start) when the order comes
        apps.append({'name': 'S', 'seq': 0, 'procs': [
            {'name': 's1', 'seq': 1, 'target': rnd.choice(['n1', 'n2']), 'behaviour': 'normal', 'startsecs': 20,
             'stopwaitsecs': 5},
            {'name': 's2', 'seq': 2, 'target': rnd.choice(['n1', 'n3']), 'behaviour': 'normal', 'startsecs': 1,
             'stopwaitsecs': 5}]})
        sc['busy_start'] = ['n1', 'S']
    if kind in ('restart', 'shutdown') and rnd.random() < 0.15:
        sc['race_order'] = True
    decorate(rnd, sc)
    if 'skew' in sc and sc['skew'][0] == 'n2' and rnd.random() < 0.5:
        sc['skew'][0] = 'n3'
    # the instance that boots first is the Master: the property quantifies over the loss of a NON-Master during the
    # ending phase
    if 'skew' in sc and sc.get('lose') and sc['lose'][0] == sc['skew'][0]:
        sc['lose'][0] = next(n for n in ('n2', 'n3', 'n1') if n != sc['skew'][0])
    return sc


def run_scenarios(scs):
    traces = []
    for i, sc in enumerate(scs):
        s = sl.Scenario(sc)
        try:
            tr = s.run()
        finally:
            s.close()
        tr['id'] = i
        traces.append(tr)
    return traces


def judge(v, traces, scs, labels, terminal_labels, tag='seq'):
    sc = vlib.scratch()
    cfg = os.path.join(sc, f'{tag}.cfg')
    with open(cfg, 'w') as f:
        f.write('SPECIFICATION Spec\n')
    out = ''
    # (TLC reads the traces of one chunk at a time: memory stays bounded in thorough runs)
    for lo in range(0, len(traces), 500):
        chunk = traces[lo:lo + 500]
        path = os.path.join(sc, f'{tag}_traces_{lo}.json')
        with open(path, 'w') as f:
            json.dump(chunk, f)
        r = vlib.run_tlc('SequencerMon', cfg, workers=8, env={'TRACE_FILE': path}, timeout=2400, heap='8g')
        os.remove(path)
        if not r.ok:
            raise MachineryFailure(f'SequencerMon: rc={r.rc} timed_out={r.timed_out} {r.error_text[:3000] or r.stdout[-1500:]}')
        done = {int(json.loads(l)[2:]) for l in r.stdout.splitlines() if l.startswith('"D ')}
        if done != {t['id'] for t in chunk}:
            raise MachineryFailure(f'SequencerMon: {len(done)} traces completed out of {len(chunk)}')
        out += r.stdout + '\n'

    class _R:
        stdout = out
    r = _R()
    allv = vlib.tlc_prints(r.stdout, 'V ') + vlib.tlc_prints(r.stdout, 'E ')
    want = set(labels) | set(terminal_labels)
    listed = {x['id']: x for x in vlib.known_for(v.pid)}
    everything = {x['id'] for x in vlib.load_known().get('findings', [])}
    for f in allv:
        for kx in [x for x in f['f'] if x.startswith('KNOWN.')]:
            fid = kx[6:]
            if fid in listed:
                v.known(fid, listed[fid]['what'])
            elif fid in everything:
                continue          # a finding listed for another property
            elif any(lab.startswith(v.pid) for lab in want):
                v.violation(f'signature {fid} matched but it is not a listed finding', {'scenario': scs[f['t']]})
        mine = sorted(x for x in f['f'] if x in want)
        if mine:
            scn = scs[f['t']]
            st = traces[f['t']]['steps'][f['s'] - 1]
            v.classify({'failed': mine[0], 'trigger': traces[f['t']]['trigger']},
                       f'{mine} at step {f["s"]} ({st["a"]} n{st["n"]} reqs={st["reqs"]} err={st["errtxt"][-160:]}) of '
                       f'scenario {json.dumps(scn)[:900]}', {'scenario': scn, 'failed': mine, 'step': f['s']})
    v.cov['traces_validated_against_impl'] += len(traces)
    v.cov['evaluations'] += sum(len(t['steps']) for t in traces)
    return allv


def run_and_judge(v, scs, labels, terminal_labels, tag='seq', chunk=400):
    """Scenarios are run and judged chunk by chunk (bounded memory in thorough runs).
    Returns (verdict lines, number of traces, number of steps)."""
    allv, n_tr, n_st = [], 0, 0
    for lo in range(0, len(scs), chunk):
        part = scs[lo:lo + chunk]
        traces = run_scenarios(part)
        got = judge(v, traces, part, labels, terminal_labels, tag=tag)
        for f in got:
            allv.append(dict(f, t=f['t'] + lo))
        n_tr += len(traces)
        n_st += sum(len(t['steps']) for t in traces)
    return allv, n_tr, n_st


def model_check(v, tier):
    """E1: the design model of the sequencer (Sequencer.tla) exhausted by TLC."""
    sc = vlib.scratch()
    for name, consts in (('small', 'NP = 3\n MaxAge = 3'),):
        cfg = os.path.join(sc, f'sequencer_{name}.cfg')
        with open(cfg, 'w') as f:
            f.write('SPECIFICATION Spec\nCONSTANTS ' + consts + '\nINVARIANT TypeOK\nINVARIANT OrderInv\n'
                    'INVARIANT ZeroInv\nINVARIANT AbortInv\nINVARIANT BoundedInv\nPROPERTY Terminates\n')
        if not os.path.exists(os.path.join(vlib.SPEC, 'Sequencer.tla')):
            return
        r = vlib.run_tlc('Sequencer', cfg, timeout=900, dfs_queue=True)
        v.add_tlc(f'Sequencer {name}', r)
        if not r.ok and not r.violated:
            raise MachineryFailure(f'Sequencer.tla: {r.error_text[:2000]}')
        if r.violated:
            v.notes.append(f'Sequencer model violates {r.violated}')
