"""C17 - XML-RPC commands are gated by Supvisors state and fail cleanly.

RpcGate.tla is the documented table (method x Supvisors state x parameter class -> admitted outcomes, inertness).
TLC enumerates it; every case is executed on instances brought to that state by a REAL history (Master and
non-Master), and the fault code, the requests emitted and the full status snapshot before/after are compared with
what the table admits.
"""
import json
import os
import sys

sys.path.insert(0, os.path.join(os.path.dirname(os.path.abspath(__file__)), '..', 'harness'))
import vlib
from vlib import MachineryFailure

PID = 'C17'

FAULTS = {101: 'BAD_SUPVISORS_STATE', 10: 'BAD_NAME', 2: 'INCORRECT_PARAMETERS', 102: 'NOT_MANAGED',
          104: 'NOT_APPLICABLE'}


def rules(hold):
    h = ''
    if hold:
        h = ('<application name="hold"><start_sequence>1</start_sequence><programs><program name="h1">'
             '<identifiers>n2</identifiers><start_sequence>1</start_sequence></program></programs></application>')
    return ('<?xml version="1.0" encoding="UTF-8" standalone="no"?><root><application name="app">'
            '<start_sequence>0</start_sequence><programs>'
            '<program name="p1"><identifiers>*</identifiers><start_sequence>1</start_sequence></program>'
            '<program name="p2"><identifiers>*</identifiers><start_sequence>2</start_sequence></program>'
            '<program name="dup"><identifiers>*</identifiers></program>'
            '<program name="slow"><identifiers>*</identifiers></program>'
            f'</programs></application>{h}</root>')


PROGS = [{'name': 'p1', 'groups': ['app']}, {'name': 'p2', 'groups': ['app']}, {'name': 'dup', 'groups': ['app']},
         {'name': 'slow', 'groups': ['app'], 'stopwaitsecs': 100000},
         {'name': 'u1', 'groups': ['unm']}, {'name': 'h1', 'groups': ['hold'], 'startsecs': 100000}]


def build(state, user):
    """Bring a 2-instance cluster to `state` by a real history. Returns (cluster, driver, roles) where roles maps
    'master' / 'slave' / 'none' to the instance to call."""
    import clusterlib as cl
    from recorder import Driver
    sync = ('USER',) if user else (('STRICT',) if state not in ('ELECTION',) else ('TIMEOUT',))
    if user and state != 'SYNCHRONIZATION':
        sync = ('USER', 'TIMEOUT')
    if user == 'joiner':
        sync = ('TIMEOUT',)
    cfg = cl.Config(n=2, sync=sync)
    c = cl.make_cluster(cfg, programs=PROGS, rules_xml=rules(state == 'DISTRIBUTION'))
    c.auto_orders = False
    d = Driver(c)
    roles = {}
    if state == 'OFF':
        d.boot('n1')
        d.boot('n2')
        roles = {'none': 'n1'}
    elif state == 'ELECTION' and user == 'joiner':
        # a late joiner that has adopted the running Master and sits in ELECTION while it knows that Master to be in
        # OPERATION (the situation of known finding F2): found by a seeded walk over the scheduler choices
        import random
        c.close()
        for seed in range(80):
            rnd = random.Random(seed)
            c = cl.make_cluster(cfg, programs=PROGS, rules_xml=rules(False))
            c.auto_orders = False
            d = Driver(c)
            d.boot('n1')
            for _ in range(8):
                d.fair_round()
            d.boot('n2')
            id1 = c.nodes['n1'].identifier
            ok = False
            for _ in range(150):
                ms = c.nodes['n2'].supvisors.state_modes.master_state      # (harness: state building only)
                if c.fsm_state('n2') == 'ELECTION' and c.master('n2') == id1 and ms is not None \
                        and ms.name == 'OPERATION' and c.fsm_state('n1') == 'OPERATION':
                    ok = True
                    break
                acts = [('p',) + pr for pr in sorted(c.pending())] + [('t', 'n2')]
                if rnd.random() < 0.3:
                    acts.append(('t', 'n1'))
                act = rnd.choice(acts)
                if act[0] == 'p':
                    d.proxy(act[1], act[2])
                else:
                    d.tick(act[1])
            if ok:
                break
            c.close()
            c = None
        if c is None:
            return None, None, {}
        roles = {'slave': 'n2'}
    elif state == 'SYNCHRONIZATION':
        d.boot('n1')
        if user:
            d.boot('n2')
        for _ in range(5):
            d.fair_round()
        roles = {'none': 'n1'}
    elif state == 'ELECTION':
        d.boot('n1')
        d.boot('n2')
        # n1 keeps receiving the ticks of n2 but its handshake request towards n2 is never executed: n1 holds n2
        # in CHECKING, its context is unstable and it stays in ELECTION once the synchro timeout has elapsed
        for _ in range(7):
            d.tick('n1')
            d.drain(only=lambda p: p == ('n1', 'n1'))
            d.tick('n2')
            d.drain(only=lambda p: p in (('n2', 'n1'), ('n2', 'n2')))
        roles = {'none': 'n1'}
    else:
        d.boot('n1')
        d.boot('n2')
        for _ in range(8):
            d.fair_round()
        roles = {'master': 'n1', 'slave': 'n2'}
        if state == 'CONCILIATION':
            d.rpc('n1', 'startProcess', 'app:dup', False, ns='supervisor')
            d.rpc('n2', 'startProcess', 'app:dup', False, ns='supervisor')
            for _ in range(3):
                d.fair_round()
        elif state in ('RESTARTING', 'SHUTTING_DOWN'):
            d.rpc('n2', 'startProcess', 'app:slow', False, ns='supervisor')
            for _ in range(3):
                d.fair_round()
            d.rpc('n1', 'restart' if state == 'RESTARTING' else 'shutdown')
            for _ in range(2):
                d.fair_round()
        elif state == 'FINAL':
            d.rpc('n1', 'restart')
            for _ in range(4):
                d.fair_round()
    got = {r: c.fsm_state(n) for r, n in roles.items()}
    if any(x != state for x in got.values()):
        c.close()
        raise MachineryFailure(f'C17 harness: could not reach {state} (user={user}): {got}')
    return c, d, roles


def args_for(case, c):
    """Concrete arguments for the case (valid values, one position made defective)."""
    ident2 = c.nodes['n2'].identifier
    vals = []
    for i, kind in enumerate(case['kinds'], 1):
        bad = case['defect'] if case['pos'] == i else None
        if kind == 'strategy':
            v = {'badstr': 'SPEEDY', 'badint': 17, 'badtype': 2.5, 'badbool': True, None: 'CONFIG'}[bad]
        elif kind == 'cstrategy':
            v = {'badstr': 'KILL_THEM', 'badint': 17, 'badtype': 2.5, 'badbool': False, None: 'STOP'}[bad]
        elif kind in ('app', 'mapp'):
            v = {'unknown': 'ghost', 'unmanaged': 'unm', None: 'app'}[bad]
        elif kind == 'proc':
            v = {'unknown': 'app:ghost', 'barename': 'app', None: 'app:p1'}[bad]
        elif kind == 'lproc':
            v = 'app:ghost' if bad else 'app:p1'
        elif kind == 'inst':
            v = 'n9' if bad else ('n2' if case.get('nickform', True) else ident2)
        elif kind == 'prog':
            v = 'ghost' if bad else 'p2'
        else:
            v = None
        vals.append(v)
    m = case['m']
    if m == 'start_any_process':
        vals[1] = 'p2'
    if m == 'update_numprocs':
        vals[1] = 1
    if m in ('start_application', 'restart_application', 'stop_application', 'start_process', 'restart_process',
             'stop_process', 'start_any_process', 'update_numprocs', 'enable', 'disable', 'restart_sequence'):
        if m in ('start_process', 'restart_process', 'start_any_process'):
            vals += ['', False]
        else:
            vals += [False]
    return vals


def outcome(res):
    if res[0] == 'ok':
        return 'SERVED'
    if res[0] == 'fault':
        return FAULTS.get(res[1], 'SERVED')       # method-specific faults: the request was examined (served)
    return 'ERROR'


def main(tier, seed, replay=None):
    v = vlib.Verdict(PID, tier, seed)
    from recorder import full_snapshot
    sc = vlib.scratch()
    cfgp = os.path.join(sc, 'rpc.cfg')
    open(cfgp, 'w').write('')
    r = vlib.run_tlc('RpcGate', cfgp, workers=1, timeout=600)
    if not r.ok:
        raise MachineryFailure(f'RpcGate: {r.error_text[:2000]}')
    cases = vlib.tlc_prints(r.stdout, 'C ')
    v.cov['states'] = len(cases)
    v.cov['transitions'] = len(cases)
    v.cov['tlc_runs'].append({'name': 'RpcGate table enumeration', 'cases': len(cases), 'wall_s': round(r.wall, 1)})
    if replay:
        with open(replay) as f:
            rep = json.load(f)['replay']
        cases = [x for x in cases if x['m'] == rep['m'] and x['s'] == rep['s'] and x['user'] == rep['user']
                 and x['pos'] == rep['pos'] and x['defect'] == rep['defect']]
    groups = {}
    for cs in cases:
        # end_sync is the only method whose gate depends on the USER option: other methods use user = FALSE
        if cs['user'] and cs['m'] != 'end_sync':
            continue
        groups.setdefault((cs['s'], cs['user']), []).append(cs)
    # ELECTION is also visited on a non-Master that knows its Master while that Master is in OPERATION
    if ('ELECTION', False) in groups:
        groups[('ELECTION', 'joiner')] = [dict(x) for x in groups[('ELECTION', False)]]
    n_calls = 0
    for (state, user), cs in sorted(groups.items(), key=lambda kv: (kv[0][0], str(kv[0][1]))):
        c, d, roles = build(state, user)
        if not roles:
            v.notes.append(f'state {state} ({user}) could not be built: role skipped')
            continue
        try:
            for role, node in sorted(roles.items()):
                for case in cs:
                    for nickform in ((True, False) if 'inst' in case['kinds'] and case['pos'] == 0 else (True,)):
                        case['nickform'] = nickform
                        if c is None:
                            c, d, roles = build(state, user)
                        args = args_for(case, c)
                        before = full_snapshot(c, node)
                        mark = len(c.wirelog)
                        c.errors = []
                        res = c.rpc(node, case['m'], *args)
                        n_calls += 1
                        out = outcome(res)
                        pushed = [w for w in c.wirelog[mark:] if w[1] == 'push_req' and w[4] != 0]
                        errs = c.errors
                        c.errors = []
                        after = full_snapshot(c, node) if c.nodes[node].alive else before
                        what = (f'{case["m"]}{tuple(args)} on {role} {node} in {state} (user={user}, '
                                f'defect={case["defect"]}@{case["pos"]})')
                        rep = {'m': case['m'], 's': state, 'user': user, 'pos': case['pos'],
                               'defect': case['defect'], 'role': role}
                        if out == 'ERROR' or errs:
                            v.classify({'m': case['m'], 'kind': 'error'},
                                       f'{what}: internal error {res if out == "ERROR" else errs[0]["exc"][-200:]}', rep)
                        elif out not in case['admitted']:
                            v.classify({'m': case['m'], 'kind': 'outcome', 'got': out, 'defect': case['defect'], 's': state},
                                       f'{what}: answered {res[:3]} ({out}), the documented table admits '
                                       f'{case["admitted"]}', rep)
                        elif out != 'SERVED' or not case['mutating']:
                            # refused (or read-only) calls must have no effect
                            if pushed or before != after:
                                diff = [k for k in before if before[k] != after.get(k)]
                                v.classify({'m': case['m'], 'kind': 'effect'},
                                           f'{what}: answered {out} but had an effect: requests={pushed[:3]} '
                                           f'snapshot keys changed={diff}', rep)
                        # rebuild after a served mutating call (or anything that changed the node)
                        if (out == 'SERVED' and case['mutating']) or pushed or before != after:
                            c.close()
                            c = None
        finally:
            if c is not None:
                c.close()
    v.cov['evaluations'] = n_calls
    v.cov['traces_validated_against_impl'] = n_calls
    v.cov['distinct_nontrivial'] = n_calls
    v.cov['exhaustive'] = True
    v.sample({'case': {k: x for k, x in cases[len(cases) // 2].items()}})
    v.cov['rule'] = ('every (method, state, parameter class) of the RpcGate.tla table, on the Master and on a '
                     'non-Master brought to that state by a real history; one XML-RPC per case, distinct by '
                     'construction')
    v.assumptions += ['states are reached by real histories on SimCluster (DISTRIBUTION held by a never-ending start, '
                      'CONCILIATION by a USER conflict, RESTARTING / SHUTTING_DOWN by a never-stopping process, '
                      'ELECTION by a handshake request left pending, FINAL with the Supervisor order not executed)',
                      'method-specific faults (ALREADY_STARTED, NOT_RUNNING, ...) count as served',
                      'one defective parameter at a time (no fault priority is demanded)']
    return v.finish()
