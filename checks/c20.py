"""C20 - statistics histories stay bounded, aligned and sane.

E1  Stats.tla (lengths of every series of the host / process compilers, period gate, key appearance / vanishing /
    wrap, pid change) exhausted by TLC for small depths and periods.
E2  every transition of the state graph is replayed into the REAL HostStatisticsCompiler / ProcStatisticsCompiler
    with concrete numbers drawn by seed inside the transition's classes; lengths are compared with the model.
E3a what the real compilers hold and return after each push (lengths, values scaled to integers) is judged by TLC
    (StatsMon.tla): Bounded, Aligned, PeriodGate, CpuRange, RateSane, Dropped. Long random streams with the real
    minimum depth (10) complete it.
"""
import json
import math
import os
import random
import sys
import types

sys.path.insert(0, os.path.join(os.path.dirname(os.path.abspath(__file__)), '..', 'harness'))
import vlib
from vlib import MachineryFailure

PID = 'C20'
IDENT = '10.0.0.1:60001'
NCORES = 2


class Real:
    """Real compilers fed with concrete samples."""

    def __init__(self, depth, periods, seed):
        from simcluster import RecLogger
        from supvisors.statscompiler import HostStatisticsCompiler, ProcStatisticsCompiler
        opts = types.SimpleNamespace(stats_histo=depth, stats_periods=list(periods), stats_irix_mode=False)
        sup = types.SimpleNamespace(options=opts, logger=RecLogger('stats'))
        self.depth, self.periods = depth, list(periods)
        self.host = HostStatisticsCompiler(sup)
        self.proc = ProcStatisticsCompiler(opts, sup.logger)
        self.rnd = random.Random(seed)
        self.now = 100.0
        self.jiffies = [[1000.0, 5000.0] for _ in range(NCORES + 1)]
        self.counters = {}            # (fam, key) -> [in, out]
        self.refs = {}                # period -> {'now': t, counters}  (host)
        self.pref = {}                # period -> now (proc)
        self.pid = 0
        self.proc_work = 10.0

    def host_sample(self, step, keys, wrap, unit=1.0):
        self.now += step * unit
        for j in self.jiffies:
            j[0] += self.rnd.choice([0.0, 0.0, 3.0, 40.0])
            j[1] += self.rnd.choice([0.0, 5.0, 60.0])
        sample = {'now': self.now, 'cpu': [tuple(j) for j in self.jiffies], 'mem': self.rnd.uniform(0, 100),
                  'net_io': {}, 'disk_io': {}, 'disk_usage': {}}
        ref = self.refs.get(self.periods[0], {}).get('counters', {})
        for fam, name in (('net', 'net_io'), ('dio', 'disk_io')):
            for k in keys.get('net' if fam == 'dio' else fam, []):
                cur = self.counters.setdefault((fam, k), [1000, 2000])
                base = ref.get((fam, k), cur)
                if k in wrap.get('net', []):
                    # a counter wraps / is reset: the received one, the sent one, or both
                    kind = self.rnd.choice(['in', 'out', 'both'])
                    cur = [max(0, base[0] - self.rnd.randint(1, 500)) if kind != 'out' else base[0] + self.rnd.randint(1, 900),
                           max(0, base[1] - self.rnd.randint(1, 500)) if kind != 'in' else base[1] + self.rnd.randint(0, 10)]
                else:
                    cur = [max(cur[0], base[0]) + self.rnd.choice([0, 0, 128, 4096]),
                           max(cur[1], base[1]) + self.rnd.choice([0, 7, 99999])]
                self.counters[(fam, k)] = cur
                sample[name][k] = tuple(cur)
        for k in keys.get('du', []):
            sample['disk_usage'][k] = self.rnd.uniform(0, 100)
        return sample

    def push_host(self, sample):
        err = ''
        out = []
        elapsed = {p: (sample['now'] - self.refs[p]['now']) if p in self.refs else -1 for p in self.periods}
        try:
            out = self.host.push_statistics(IDENT, sample)
        except Exception as exc:
            err = repr(exc)
        produced = {r['target_period'] for r in out}
        for p in self.periods:
            if p not in self.refs or p in produced:
                self.refs[p] = {'now': sample['now'], 'counters': {k: list(v) for k, v in self.counters.items()}}
        recs = []
        for p in self.periods:
            inst = self.host.instance_map[IDENT][p] if IDENT in self.host.instance_map else None
            res = next((r for r in out if r['target_period'] == p), None)
            keys = []
            if inst is not None:
                for fam in (inst.net_io, inst.disk_io, inst.disk_usage):
                    for k, (upt, vals) in sorted(fam.items()):
                        keys.append({'tl': len(upt), 'vls': [len(x) for x in vals]})
            cpu, rates = [], []
            if res:
                cpu = [scale(x) for x in res['cpu']]
                for fam in ('net_io', 'disk_io'):
                    for vals in res[fam].values():
                        rates += [scale(x) for x in vals]
                rates += [scale(x) for x in res['disk_usage'].values()]
            recs.append({'depth': self.depth, 'period': int(p * 1000),
                         'elapsed': int(round(elapsed[p] * 1000)) if elapsed[p] != -1 else -1,
                         'produced': res is not None, 'tlen': len(inst.times) if inst else 0,
                         'slens': ([len(x) for x in inst.cpu] + [len(inst.mem)]) if inst else [],
                         'keys': keys, 'cpu': cpu, 'cores': 1, 'rates': rates, 'dropped': True, 'err': err})
        return recs, produced

    def push_proc(self, step, pid, unit=1.0):
        self.now += step * unit
        if pid != self.pid:
            self.pref = {}
        # process work never exceeds cores x elapsed time (premise of the CPU range)
        # (real elapsed time = progress beyond the latest time ever seen: the clock may step backwards)
        self.maxnow = max(getattr(self, 'maxnow', self.now - step * unit), self.now - step * unit)
        dt_work = self.rnd.choice([0.0, 0.0, 0.3, 0.95]) * NCORES * max(self.now - self.maxnow, 0.0)
        self.proc_work += dt_work
        sample = {'namespec': 'app:p', 'pid': pid, 'now': self.now, 'proc_work': self.proc_work,
                  'proc_memory': self.rnd.uniform(0, 100), 'nb_cores': NCORES}
        err = ''
        out = []
        elapsed = {p: (self.now - self.pref[p]) if p in self.pref else -1 for p in self.periods}
        try:
            out = self.proc.push_statistics(IDENT, sample)
        except Exception as exc:
            err = repr(exc)
        self.pid = pid
        produced = {r['target_period'] for r in out}
        recs = []
        holder = self.proc.holder_map.get('app:p')
        entry = holder.instance_map.get(IDENT) if holder else None
        for p in self.periods:
            if pid == 0:
                self.pref = {}
            elif p not in self.pref or p in produced:
                self.pref[p] = self.now
            inst = entry[1][p] if entry else None
            res = next((r for r in out if r['target_period'] == p), None)
            recs.append({'depth': self.depth, 'period': int(p * 1000),
                         'elapsed': int(round(elapsed[p] * 1000)) if elapsed[p] != -1 else -1,
                         'produced': res is not None, 'tlen': len(inst.times) if inst else 0,
                         'slens': [len(inst.cpu), len(inst.mem)] if inst else [], 'keys': [],
                         'cpu': [scale(res['cpu'])] if res else [], 'cores': NCORES + 1,
                         'rates': [scale(res['mem'])] if res else [],
                         'dropped': (pid != 0) or entry is None, 'err': err})
        return recs, produced

    def proc_work_bound(self):
        return True


def scale(x):
    if isinstance(x, (list, tuple)):
        return scale(x[0])
    if x is None or (isinstance(x, float) and (math.isnan(x) or math.isinf(x))):
        return -1
    return int(round(min(x, 2e6) * 1000))


def write_cfg(path, depth, periods, maxt, mode, log):
    with open(path, 'w') as f:
        f.write('SPECIFICATION SpecX\nCONSTANTS Depth = %d\n Periods = {%s}\n MaxT = %d\n Mode = "%s"\n D = 0\n'
                'VIEW View\n' % (depth, ', '.join(map(str, periods)), maxt, mode))
        if log:
            f.write('ACTION_CONSTRAINT LogStep\n')
        else:
            f.write('INVARIANT Bounded\nINVARIANT Dropped\nPROPERTY Gate\nPROPERTY Fresh\nPROPERTY Grows\n')


def graph_replay(v, depth, periods, maxt, mode, seed):
    sc = vlib.scratch()
    cfg = os.path.join(sc, f'stats_{mode}_{depth}.cfg')
    write_cfg(cfg, depth, periods, maxt, mode, False)
    r = vlib.run_tlc('Stats', cfg, timeout=600, dfs_queue=True)
    v.add_tlc(f'Stats {mode} depth={depth} periods={periods} maxT={maxt}', r)
    if not r.ok and not r.violated:
        raise MachineryFailure(f'Stats.tla: {r.error_text[:2000]}')
    if r.violated:
        v.notes.append(f'model violates {r.violated}')
    cfg2 = os.path.join(sc, f'stats_{mode}_{depth}_log.cfg')
    write_cfg(cfg2, depth, periods, maxt, mode, True)
    r2 = vlib.run_tlc('Stats', cfg2, workers=1, timeout=900, dfs_queue=True)
    if not r2.ok:
        raise MachineryFailure(f'Stats.tla log: {r2.error_text[:2000]}')
    trans = vlib.tlc_prints(r2.stdout, 'T ')
    canon = lambda x: json.dumps(x, sort_keys=True)
    init = canon(trans[0]['pre'])
    parent = {init: None}
    by_pre = {}
    for t in trans:
        cp, cq = canon(t['pre']), canon(t['post'])
        by_pre.setdefault(cp, []).append(t)
        if cq not in parent and cp in parent:
            parent[cq] = (cp, t['op'])

    def path_to(cs):
        ops = []
        while parent[cs] is not None:
            cs, o = parent[cs]
            ops.append(o)
        return list(reversed(ops))

    recs = []
    n = 0
    for cp, ts in by_pre.items():
        if cp not in parent:
            continue
        prefix = path_to(cp)
        for t in ts:
            real = Real(depth, periods, seed + n)
            n += 1
            last = []
            for o in prefix + [t['op']]:
                if o['o'] == 'Host':
                    last, produced = real.push_host(real.host_sample(o['step'], o['keys'], o['wrap']))
                else:
                    last, produced = real.push_proc(o['step'], o['pid'])
            for rc in last:
                rc['path'] = prefix + [t['op']]
            recs += last
            # conformance on lengths
            post = t['post']
            for idx, (p, rc) in enumerate(zip(periods, last)):
                key = str(p)
                fld = post['times'] if mode == 'host' else post['plen']
                exp = fld[key] if isinstance(fld, dict) else fld[idx]
                if rc['tlen'] != exp and not rc['err']:
                    v.drift.append(f'{mode} path={prefix + [t["op"]]} period={p}: model len={exp} code len={rc["tlen"]}')
    return recs


def monitor(v, recs, label):
    sc = vlib.scratch()
    uniq = {}
    for r in recs:
        key = json.dumps({k: x for k, x in r.items() if k != 'path'}, sort_keys=True)
        uniq.setdefault(key, r)
    ul = list(uniq.values())
    path = os.path.join(sc, f'stats_recs_{label}.json')
    with open(path, 'w') as f:
        json.dump([{k: x for k, x in r.items() if k != 'path'} for r in ul], f)
    cfg = os.path.join(sc, 'statsmon.cfg')
    open(cfg, 'w').write('')
    rm = vlib.run_tlc('StatsMon', cfg, workers=1, env={'RECS_FILE': path}, timeout=1800, heap='8g')
    if not rm.ok:
        raise MachineryFailure(f'StatsMon: {rm.error_text[:2000]}')
    ns = [l for l in rm.stdout.splitlines() if l.startswith('"N ')]
    if not ns or int(json.loads(ns[0])[2:]) != len(ul):
        raise MachineryFailure('StatsMon did not read all records')
    for bad in vlib.tlc_prints(rm.stdout, 'V '):
        r = ul[bad['i'] - 1]
        v.violation(f'{sorted(bad["failed"])}: {({k: x for k, x in r.items() if k != "path"})} after {r.get("path", "")[-4:]}',
                    {'failed': sorted(bad['failed']), 'path': r.get('path'), 'depth': r['depth']})
    v.cov['traces_validated_against_impl'] += len(ul)
    v.cov['evaluations'] += len(recs)


def long_streams(v, tier, seed):
    """Random long streams with the real minimum depth (10) and realistic periods."""
    rnd = random.Random(seed)
    recs = []
    n_streams = 30 if tier == 'quick' else 600
    for s in range(n_streams):
        real = Real(10, [5.0, 15.0], seed * 7919 + s)
        path = []
        for _ in range(200):
            if rnd.random() < 0.6:
                keys = {'net': [k for k in ('eth0', 'lo', 'wlan0') if rnd.random() < 0.7],
                        'du': [k for k in ('/', '/home') if rnd.random() < 0.8]}
                wrap = {'net': [k for k in keys['net'] if rnd.random() < 0.1]}
                step = rnd.choice([0, 1, 5, 5, 5, 7, 30, -3])
                out, _ = real.push_host(real.host_sample(step, keys, wrap))
            else:
                step = rnd.choice([0, 1, 5, 5, 6, 20, -2])
                out, _ = real.push_proc(step, rnd.choice([0, 11, 11, 11, 11, 12]))
            path.append(step)
            for rc in out:
                rc['path'] = [f'stream seed={seed * 7919 + s} step#{len(path)}']
            recs += out
    return recs


def main(tier, seed, replay=None):
    v = vlib.Verdict(PID, tier, seed)
    if replay:
        with open(replay) as f:
            rep = json.load(f)['replay']
        print('replay path:', rep.get('path'))
        return 0
    recs = []
    recs += graph_replay(v, 2, [2], 7, 'host', seed)
    recs += graph_replay(v, 2, [1, 2], 7, 'proc', seed)
    if tier != 'quick':
        recs += graph_replay(v, 3, [1], 8, 'host', seed)
        recs += graph_replay(v, 3, [1, 2], 9, 'proc', seed)
    v.cov['graph_transitions_replayed'] = len(recs)
    v.sample({k: x for k, x in recs[len(recs) // 2].items()})
    recs += long_streams(v, tier, seed)
    monitor(v, recs, 'all')
    v.cov['exhaustive'] = True
    v.cov['distinct_nontrivial'] = v.cov['traces_validated_against_impl']
    v.cov['rule'] = ('every transition of the Stats.tla graphs replayed (shortest path) into the real compilers with '
                     'seeded concrete values + long random streams; distinct (lengths, values) records judged by TLC')
    v.assumptions += ['CPU core-count changes are outside the stated domain and are not generated',
                      'numeric accuracy is not addressed (ranges and finiteness only)',
                      'counters of non-wrapped keys are non-decreasing, jiffies non-decreasing']
    return v.finish()
