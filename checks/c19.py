"""C19 - start predictions are side-effect free and match a real start.

For sampled placement situations realised on a real 3-instance / 2-node cluster (see placement_lib): full XML-RPC
snapshot -> test_start_application / test_start_process (1-3 times) -> snapshot (identical, wire silent) -> the
actual start issued from the same situation -> the START requests on the wire must be the predicted placement.
Judged by TLC (PredictMon.tla). The placement rule itself is decided by C04 / C14 (Placement.tla).
"""
import json
import os
import random
import sys

sys.path.insert(0, os.path.join(os.path.dirname(os.path.abspath(__file__)), '..', 'harness'))
import vlib
import placement_lib as pl
import placement_check as pk
from vlib import MachineryFailure


def collect(seed, count):
    from recorder import full_snapshot
    recs = []
    downs = ((), ('n3',))
    per = max(1, count // len(downs))
    for di, down in enumerate(downs):
        pc = pl.PlacementCluster(down=down)
        rnd = random.Random(seed * 17 + di)
        try:
            c = pc.c
            for s in pl.sample_situations(seed * 53 + di, per):
                pc.set_loads(s['loads'])
                ki, ri, L, p = s['k'], s['r'], s['L'], s['p']
                a = pl.app_name(ki, ri, L, p)
                tgt = f'tgt{ki}_{ri}_{L}_{p}'
                if s['disabled']:
                    pc.set_disabled(s['disabled'], tgt, True)
                by_app = bool(p) or rnd.random() < 0.5
                arg = a if by_app else f'{a}:{tgt}'
                before = full_snapshot(c, 'n1')
                mark = len(c.wirelog)
                c.errors = []
                answers = []
                for _ in range(rnd.choice([1, 2, 3])):
                    answers.append(c.rpc('n1', 'test_start_application' if by_app else 'test_start_process',
                                         s['strategy'], arg))
                pushed = [w for w in c.wirelog[mark:] if w[1].startswith('push_') and w[1] != 'push_not']
                after = full_snapshot(c, 'n1')
                errs = list(c.errors)
                c.errors = []
                predicted = []
                fault_p = None
                if answers[0][0] == 'ok':
                    for x in answers[0][1]:
                        ids = x['running_identifiers']
                        predicted.append([x['process_name'], int(c.nick(ids[0])[1]) if ids else 0])
                else:
                    fault_p = answers[0][1] if answers[0][0] == 'fault' else 'error'
                # the actual start from the same situation
                mark = len(c.wirelog)
                real = c.rpc('n1', 'start_application' if by_app else 'start_process', s['strategy'], arg, False) \
                    if by_app else c.rpc('n1', 'start_process', s['strategy'], arg, '', False)
                actual = {}
                for w in c.wirelog[mark:]:
                    if w[1] == 'push_req' and w[4] == 1:
                        actual[w[5][0].split(':')[1]] = int(w[3][1])
                errs += list(c.errors)
                c.errors = []
                fault_r = real[1] if real[0] == 'fault' else None
                if fault_p is None:
                    for name, _ in predicted:
                        actual.setdefault(name, 0)
                rec = {'silent': not pushed, 'same': before == after,
                       'stable': all(json.dumps(x, sort_keys=True, default=str) ==
                                     json.dumps(answers[0], sort_keys=True, default=str) for x in answers),
                       'predicted': predicted, 'actual': [[k, x] for k, x in sorted(actual.items())],
                       'fault': fault_p is not None and (fault_r == fault_p or fault_p in (40,)),
                       'err': errs[0]['exc'][-200:] if errs else ('error' if 'error' in (answers[0][0], real[0]) else ''),
                       '_sit': dict(s, down=list(down), by_app=by_app, n_predictions=len(answers),
                                    diff=[k for k in before if before[k] != after.get(k)],
                                    fault_p=fault_p, fault_r=fault_r)}
                recs.append(rec)
                pc.stop_all_targets()
                if s['disabled']:
                    pc.set_disabled(s['disabled'], tgt, False)
        finally:
            pc.close()
    return recs


def collect_dist(seed, tier):
    """Predictions for SINGLE_INSTANCE / SINGLE_NODE applications (c14_dist layout: the programs carry their own
    identifiers rule - n1 only - that the application rule replaces, so the chosen instance is often one the program
    rule excludes)."""
    import c14_dist
    from recorder import full_snapshot
    from simcluster import Cluster
    layout, rules, apps = c14_dist.layout_rules()
    rnd = random.Random(seed * 29 + 19)
    pc = pl.PlacementCluster.__new__(pl.PlacementCluster)
    pc.c = Cluster(layout, options={'synchro_options': 'LIST,TIMEOUT', 'synchro_timeout': '15'}, rules_xml=rules)
    pc.c.boot_all()
    for _ in range(14):
        pc.c.round()
    pc.down, pc.disabled = set(), {}
    c = pc.c
    recs = []
    try:
        if c.fsm_state('n1') != 'OPERATION':
            raise MachineryFailure('C19 dist harness: no OPERATION')
        todo = [(a, s) for a in apps if a[3] == 'all' for s in ('CONFIG', 'LESS_LOADED', 'MOST_LOADED_NODE')]
        rnd.shuffle(todo)
        for (a, dist, rule, kn), strategy in todo[:(12 if tier == 'quick' else 200)]:
            pc.set_loads({n: rnd.choice([0, 0, 30, 40]) for n in pl.NODES})
            before = full_snapshot(c, 'n1')
            mark = len(c.wirelog)
            c.errors = []
            answers = [c.rpc('n1', 'test_start_application', strategy, a) for _ in range(2)]
            pushed = [w for w in c.wirelog[mark:] if w[1].startswith('push_') and w[1] != 'push_not']
            after = full_snapshot(c, 'n1')
            errs = list(c.errors)
            c.errors = []
            predicted, fault_p = [], None
            if answers[0][0] == 'ok':
                for x in answers[0][1]:
                    ids = x['running_identifiers']
                    predicted.append([x['process_name'], int(c.nick(ids[0])[1]) if ids else 0])
            else:
                fault_p = answers[0][1] if answers[0][0] == 'fault' else 'error'
            mark = len(c.wirelog)
            real = c.rpc('n1', 'start_application', strategy, a, False)
            for _ in range(4):
                pc.rounds(1)
            actual = {}
            for w in c.wirelog[mark:]:
                if w[1] == 'push_req' and w[4] == 1:
                    actual[w[5][0].split(':')[1]] = int(w[3][1])
            errs += list(c.errors)
            c.errors = []
            fault_r = real[1] if real[0] == 'fault' else None
            if fault_p is None:
                for name, _ in predicted:
                    actual.setdefault(name, 0)
            # (processes of later start groups are requested once the first ones run: only placement is compared)
            recs.append({'silent': not pushed, 'same': before == after,
                         'stable': json.dumps(answers[0], sort_keys=True, default=str) ==
                         json.dumps(answers[1], sort_keys=True, default=str),
                         'predicted': sorted(predicted), 'actual': [[k, x] for k, x in sorted(actual.items())],
                         'fault': fault_p is not None and (fault_r == fault_p or fault_p in (40,)),
                         'err': errs[0]['exc'][-200:] if errs else ('error' if 'error' in (answers[0][0], real[0]) else ''),
                         '_sit': {'app': a, 'dist': dist, 'rule': rule, 'strategy': strategy,
                                  'diff': [k for k in before if before[k] != after.get(k)],
                                  'fault_p': fault_p, 'fault_r': fault_r}})
            pc.stop_all_targets()
    finally:
        pc.close()
    return recs


def main(tier, seed, replay=None):
    v = vlib.Verdict('C19', tier, seed)
    if replay:
        with open(replay) as f:
            print(json.load(f))
        return 0
    pk.definition_selfcheck(v)
    recs = collect(seed, 400 if tier == 'quick' else 5000)
    recs += collect_dist(seed, tier)
    v.sample({k: x for k, x in recs[5].items()})
    pk.judge(v, recs, ['C19.Silent', 'C19.Unchanged', 'C19.Repeatable', 'C19.Matches'], module='PredictMon',
             tag='predict')
    v.cov['distinct_nontrivial'] = pk.nontrivial(recs)
    v.cov['exhaustive'] = False
    v.cov['rule'] = ('seeded sample of placement situations; for each: snapshot, 1-3 predictions, snapshot, real start; '
                     'distinct = distinct (prediction, actual) records')
    v.assumptions += ['"every process starts normally" is the behaviour of the simulated Supervisor processes',
                      'a real start answered ABNORMAL_TERMINATION (nothing could be started) is compared through the '
                      'requests actually sent (none) against the prediction']
    return v.finish()
