"""C03 - start sequences are honoured for applications and their processes.

Seeded scenarios (rules with sequence numbers, wait_exit, required, the three starting failure strategies; process
behaviours normal / spawn error / early exit / unexpected exit / request never answered; loss of the target
instance; triggers: automatic distribution, restart_sequence, start_application, restart_application on Master and
non-Master) run on real cores; every recorded step is judged by TLC (SequencerMon: ProcOrder, AppOrder,
ZeroNeverAuto, FailureStrategy, and at the end StopStrategy, PlanCompleted). No event is dropped here (event loss is
C10's quantifier).
"""
import json
import os
import random
import sys

sys.path.insert(0, os.path.join(os.path.dirname(os.path.abspath(__file__)), '..', 'harness'))
import vlib
import seq_check as sk

LABELS = ['C03.ProcOrder', 'C03.AppOrder', 'C03.ZeroNeverAuto', 'C03.FailureStrategy']
TERMINAL = ['C03.StopStrategy', 'C03.PlanCompleted']


def main(tier, seed, replay=None):
    v = vlib.Verdict('C03', tier, seed)
    if replay:
        with open(replay) as f:
            scs = [json.load(f)['replay']['scenario']]
    else:
        rnd = random.Random(seed * 9973 + 3)
        scs = [sk.gen_start_scenario(rnd, drops=False) for _ in range(400 if tier == 'quick' else 6000)]
    sk.model_check(v, tier)
    traces = sk.run_scenarios(scs)
    allv = sk.judge(v, traces, scs, LABELS, TERMINAL)
    if replay:
        print(allv)
    v.sample({'scenario': scs[0]})
    v.cov['distinct_nontrivial'] = len({json.dumps(s, sort_keys=True) for s in scs})
    v.cov['rule'] = ('seeded scenarios (rules x behaviours x trigger x instance loss), distinct by content; each is one '
                     'implementation trace judged step by step by TLC')
    v.assumptions += ['nobody starts a process of the plan directly through Supervisor while the plan runs',
                      'placement is fixed by the identifiers rule (one eligible target), verified separately (C04/C14)',
                      'SimCluster with real Supervisor process state machines (spawn / exit / kill simulated)']
    return v.finish()
