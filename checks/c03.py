"""C03 - start sequences are honoured for applications and their processes.

Seeded scenarios (rules with sequence numbers, wait_exit, required, the three starting failure strategies; process
behaviours normal / spawn error / early exit / unexpected exit / request never answered; loss of the target
instance; triggers: automatic distribution, restart_sequence, start_application, restart_application on Master and
non-Master) run on real cores; every recorded step is judged by TLC (SequencerMon: ProcOrder, AppOrder,
ZeroNeverAuto, FailureStrategy, and at the end StopStrategy, PlanCompleted). No event is dropped here (event loss is
C10's quantifier).
"""
import json
import os
import random
import sys

sys.path.insert(0, os.path.join(os.path.dirname(os.path.abspath(__file__)), '..', 'harness'))
import vlib
import seq_check as sk

LABELS = ['C03.ProcOrder', 'C03.AppOrder', 'C03.ZeroNeverAuto', 'C03.FailureStrategy']
TERMINAL = ['C03.StopStrategy', 'C03.PlanCompleted']


def directed():
    """Families that seeded generation hits too rarely."""
    out = []
    # the target is lost between the start request and its execution, for a required process, under each strategy
    # (app level and program level), with a later group planned
    for strat, level in ((s, l) for s in ('ABORT', 'STOP', 'CONTINUE') for l in ('app', 'program')):
        p1 = {'name': 'p1', 'seq': 1, 'required': True, 'target': 'n2', 'behaviour': 'normal', 'startsecs': 1}
        if level == 'program':
            p1['strategy'] = strat
        app = {'name': 'A', 'seq': 1, 'strategy': strat if level == 'app' else ('CONTINUE' if strat != 'CONTINUE' else 'ABORT'),
               'procs': [{'name': 'p0', 'seq': 1, 'required': False, 'target': 'n1', 'behaviour': 'normal', 'startsecs': 1},
                         p1,
                         {'name': 'p2', 'seq': 2, 'required': False, 'target': 'n1', 'behaviour': 'normal', 'startsecs': 1}]}
        for trig in (('start_application', 'n1', 'start_application', ['CONFIG', 'A', False]), ('distribution',)):
            sc = {'apps': [dict(app, seq=1 if trig[0] == 'distribution' else 0)], 'trigger': trig, 'drops': [], 'n': 2,
                  'rounds': 22, 'lose_at_req': 'A:p1'}
            if trig[0] == 'distribution':
                sc.update(pre_rounds=25, rounds=4)
            out.append(sc)
            # the same process simply fails (spawn error)
            sc2 = json.loads(json.dumps(sc))
            del sc2['lose_at_req']
            sc2['apps'][0]['procs'][1]['behaviour'] = 'spawnerr'
            out.append(sc2)
    # applications sharing a start_sequence, one of them longer than the other, a third one behind, both declaration
    # orders
    for order in (('A', 'B'), ('B', 'A')):
        apps = {'A': {'name': order[0], 'seq': 1, 'strategy': 'ABORT',
                      'procs': [{'name': 'a1', 'seq': 1, 'target': 'n2', 'behaviour': 'normal', 'startsecs': 5},
                                {'name': 'a2', 'seq': 2, 'target': 'n1', 'behaviour': 'normal', 'startsecs': 5}]},
                'B': {'name': order[1], 'seq': 1, 'strategy': 'ABORT',
                      'procs': [{'name': 'b1', 'seq': 1, 'target': 'n1', 'behaviour': 'normal', 'startsecs': 1}]}}
        third = {'name': 'C', 'seq': 2, 'strategy': 'ABORT',
                 'procs': [{'name': 'c1', 'seq': 1, 'target': 'n2', 'behaviour': 'normal', 'startsecs': 1}]}
        for trig in (('distribution',), ('restart_sequence', 'n1', 'restart_sequence', [False])):
            sc = {'apps': [apps['A'], apps['B'], third], 'trigger': trig, 'drops': [], 'n': 2, 'rounds': 24}
            if trig[0] == 'distribution':
                sc.update(pre_rounds=30, rounds=4)
            out.append(sc)
    # the host of a STARTING required process is lost, the program has a running failure strategy that is not CONTINUE:
    # the failure is a STARTING failure (the strategy of the start applies, nothing is restarted)
    for strat in ('ABORT', 'STOP'):
        for rfs in ('RESTART_PROCESS', 'RESTART_APPLICATION', 'STOP_APPLICATION'):
            for when in (0, 1, 2):
                out.append({'apps': [{'name': 'A', 'seq': 0, 'strategy': strat, 'procs': [
                    {'name': 'p0', 'seq': 1, 'required': False, 'target': 'n1', 'behaviour': 'normal', 'startsecs': 1,
                     'rfs': rfs},
                    {'name': 'p1', 'seq': 1, 'required': True, 'target': 'n2', 'behaviour': 'normal', 'startsecs': 20,
                     'rfs': rfs},
                    {'name': 'p2', 'seq': 2, 'required': False, 'target': 'n1', 'behaviour': 'normal',
                     'startsecs': 1, 'rfs': rfs}]}],
                    'trigger': ('start_application', 'n1', 'start_application', ['CONFIG', 'A', False]),
                    'drops': [], 'n': 2, 'rounds': 22, 'lose': ['n2', when]})
    # two instances planning at the same time: a start sequence requested on one instance is still in progress (first
    # group slow) when restart_sequence / start_application / restart_application is requested on the other one
    for first, second in (('n2', 'n1'), ('n1', 'n2')):
        for trig in (('restart_sequence', second, 'restart_sequence', [False]),
                     ('start_application', second, 'start_application', ['CONFIG', 'S', False]),
                     ('restart_application', second, 'restart_application', ['CONFIG', 'S', False])):
            out.append({'apps': [{'name': 'S', 'seq': 1, 'strategy': 'CONTINUE',
                                  'procs': [{'name': 's1', 'seq': 1, 'required': True, 'target': 'n2',
                                             'behaviour': 'normal', 'startsecs': 20},
                                            {'name': 's2', 'seq': 2, 'required': True, 'target': 'n2',
                                             'behaviour': 'normal', 'startsecs': 1}]}],
                        'trigger': trig, 'drops': [], 'n': 2, 'pre_rounds': 16, 'rounds': 16,
                        'pre_calls': [[first, 'stop_application', ['S', False], 4],
                                      [first, 'start_application', ['CONFIG', 'S', False], 1]]})
    # known finding F22 (always part of the run): the Master is lost with the request of a required process (STOP)
    out.append({'apps': [{'name': 'A', 'seq': 0, 'strategy': 'STOP',
                          'procs': [{'name': 'p1', 'seq': 1, 'required': True, 'target': 'n1', 'behaviour': 'normal',
                                     'startsecs': 1},
                                    {'name': 'p2', 'seq': 3, 'required': True, 'target': 'n2', 'behaviour': 'normal',
                                     'startsecs': 5}]}],
                'trigger': ('start_application', 'n1', 'start_application', ['CONFIG', 'A', False]), 'drops': [],
                'rounds': 22, 'n': 2, 'skew': ['n2', 6], 'lose_at_req': 'A:p2'})
    return out


def main(tier, seed, replay=None):
    v = vlib.Verdict('C03', tier, seed)
    if replay:
        with open(replay) as f:
            scs = [json.load(f)['replay']['scenario']]
    else:
        rnd = random.Random(seed * 9973 + 3)
        scs = [sk.gen_start_scenario(rnd, drops=False) for _ in range(400 if tier == 'quick' else 6000)]
        scs += directed()
    sk.model_check(v, tier)
    allv, _, _ = sk.run_and_judge(v, scs, LABELS, TERMINAL)
    if replay:
        print(allv)
    v.sample({'scenario': scs[0]})
    v.cov['distinct_nontrivial'] = len({json.dumps(s, sort_keys=True) for s in scs})
    v.cov['rule'] = ('seeded scenarios (rules x behaviours x trigger x instance loss), distinct by content; each is one '
                     'implementation trace judged step by step by TLC')
    v.assumptions += ['nobody starts a process of the plan directly through Supervisor while the plan runs',
                      'placement is fixed by the identifiers rule (one eligible target), verified separately (C04/C14)',
                      'SimCluster with real Supervisor process state machines (spawn / exit / kill simulated)']
    return v.finish()
