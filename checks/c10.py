"""C10 - every start/stop job terminates in bounded ticks whatever gets lost.

Same scenario family as C03 / C09 plus dropped process events (any subset of STARTING / RUNNING / BACKOFF / FATAL /
EXITED / STOPPING / STOPPED publications on their way to the requester), requests never answered, processes never
stopping, loss of the target instance. TLC (SequencerMon) judges: Bounded (jobs are not reported in progress beyond
the bound computed from the configuration after the last request), Terminates, GiveUpVisible. wait_exit programs
that never exit (or whose exit is never reported) are the documented exception and are excluded by a premise.
"""
import json
import os
import random
import sys

sys.path.insert(0, os.path.join(os.path.dirname(os.path.abspath(__file__)), '..', 'harness'))
import vlib
import seq_check as sk

LABELS = ['C10.Bounded']
TERMINAL = ['C10.Terminates', 'C10.GiveUpVisible', 'C10.GiveUpReported']


def main(tier, seed, replay=None):
    v = vlib.Verdict('C10', tier, seed)
    if replay:
        with open(replay) as f:
            scs = [json.load(f)['replay']['scenario']]
    else:
        rnd = random.Random(seed * 9973 + 10)
        n = 300 if tier == 'quick' else 5000
        scs = [sk.gen_start_scenario(rnd, drops=True) for _ in range(n)]
        scs += [sk.gen_stop_scenario(rnd) for _ in range(n // 2)]
    sk.model_check(v, tier)
    allv, _, _ = sk.run_and_judge(v, scs, LABELS, TERMINAL)
    if replay:
        print(allv)
    v.sample({'scenario': scs[min(1, len(scs) - 1)]})
    v.cov['distinct_nontrivial'] = len({json.dumps(s, sort_keys=True) for s in scs})
    v.cov['dropped_events'] = sum(len(s.get('drops', [])) for s in scs)
    v.cov['rule'] = 'seeded scenarios with dropped events / unanswered requests / lost targets, distinct by content'
    v.assumptions += ['the bound is computed from the configuration only (minimum ticks, startsecs / stopwaitsecs, '
                      'inactivity ticks), in rounds of one tick per live instance',
                      'event loss is a harness-level loss of one publication on its way to the requester']
    return v.finish()
