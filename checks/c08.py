"""C08 - after disturbances the cluster returns to OPERATION; nobody stays parked."""
import cluster_check as cc
import clusterlib as cl

TERMINAL = ['C08.Progress', 'C01.Convergence']

RULES = ('<?xml version="1.0" encoding="UTF-8" standalone="no"?><root><application name="app"><programs>'
         '<program name="dup"><identifiers>*</identifiers></program></programs></application></root>')


def conflict_scenarios(tier, seed, tail):
    """Checkpoint 'Master in CONCILIATION with a conflict left to the user' reached by a real history (the
    duplicate is started directly through Supervisor on two instances), then every single crash / restart /
    partition at every round of the following rounds."""
    from recorder import Driver
    out = []
    for sync in (('LIST', 'TIMEOUT'), ('TIMEOUT',)):
        cfg = cl.Config(n=3, sync=sync)
        traces, recs = [], {}
        faults = [('crash', v, r) for v in ('n1', 'n2') for r in (0, 1)] + \
                 [('restart', v, r) for v in ('n1', 'n3') for r in (0, 1)] + [('cut', 'n1', 0), ('none', '', 0)]
        if tier != 'quick':
            faults += [('crash', 'n3', 2), ('restart', 'n2', 2), ('cut', 'n2', 1), ('cut', 'n1', 2)]
        for k, (kind, victim, at) in enumerate(faults):
            c = cl.make_cluster(cfg, programs=[{'name': 'dup', 'groups': ['app']}], rules_xml=RULES)
            d = Driver(c)
            try:
                for n in c.nodes:
                    d.boot(n)
                for _ in range(7):
                    d.fair_round()
                d.rpc('n2', 'startProcess', 'app:dup', False, ns='supervisor')
                d.rpc('n3', 'startProcess', 'app:dup', False, ns='supervisor')
                for _ in range(3 + at):
                    d.fair_round()
                if kind == 'crash':
                    d.crash(victim)
                elif kind == 'restart':
                    d.crash(victim)
                    d.boot(victim)
                elif kind == 'cut':
                    others = [n for n in c.nodes if n != victim]
                    for o in others:
                        d.cut(victim, o)
                        d.cut(o, victim)
                    for _ in range(4):
                        d.fair_round()
                cl.fair_tail(d, cfg, tail + 4)
            finally:
                c.close()
            traces.append(cl.mon_trace(k, d.rec, cfg, True, False))
            recs[k] = d.rec
        out.append((cfg, traces, recs))
    return out


SEQ_RESULTS = []


def sequencing_runs(tier, seed, tail):
    """Start / stop sequences disturbed by the loss of the target instance (at the request, during the start, during
    the stop), by dropped events and by failing processes: when everything is over nobody is parked in DISTRIBUTION
    and no job is left pending (SequencerMon, terminal formula C08.Progress)."""
    import random
    import vlib
    import seq_check as sk
    rnd = random.Random(seed * 3331 + 8)
    n = 60 if tier == 'quick' else 1500
    scs = []
    while len(scs) < n:
        sc = sk.gen_start_scenario(rnd, drops=True)
        if 'lose' in sc or 'lose_at_req' in sc or len(scs) % 3 == 0:
            scs.append(sc)
    scs += [sk.gen_stop_scenario(rnd) for _ in range(n // 3)]
    v = vlib.Verdict('C08', tier, seed)
    _, n_tr, n_st = sk.run_and_judge(v, scs, [], ['C08.Progress'], tag='seq08')
    SEQ_RESULTS.append((v, n_tr, n_st))
    return []


def oneway_two_instances(tier, seed, tail):
    """One-way glitches between 2 instances (family of C01): also the deterministic input of known finding F2 (a
    non-Master that re-handshakes its Master is parked in ELECTION)."""
    import c01
    return c01.oneway_scenarios(tier, seed, tail, only2=True)


def main(tier, seed, replay=None):
    if replay:
        import json
        with open(replay) as f:
            rep = json.load(f)['replay']
        if 'scenario' in rep:
            import vlib
            import seq_check as sk
            v = vlib.Verdict('C08', tier, seed)
            sk.judge(v, sk.run_scenarios([rep['scenario']]), [rep['scenario']], [], ['C08.Progress'])
            return v.finish()
        return cc.replay_file(replay)
    q = tier == 'quick'
    e1 = [cl.Config(n=2, crash=1, restart=1, rounds=12, sync=('LIST', 'TIMEOUT')),
          cl.Config(n=2, crash=1, restart=1, conflict=1, rounds=11, sync=('TIMEOUT',)),
          cl.Config(n=3, crash=1, rounds=10, sync=('LIST', 'TIMEOUT')),
          cl.Config(n=2, slow=[(1, 2)], rounds=9, k=7)]
    if not q:
        e1 += [cl.Config(n=3, crash=1, restart=1, rounds=12, sync=('LIST', 'TIMEOUT')),
               cl.Config(n=3, cut=1, rounds=12, sync=('LIST', 'TIMEOUT')),
               cl.Config(n=2, slow=[(2, 1), (2, 2)], rounds=11),
               cl.Config(n=2, crash=1, restart=1, slow=[(1, 2)], rounds=12, sync=('TIMEOUT',)),
               cl.Config(n=3, crash=1, restart=1, rounds=12, core=(2,), sync=('CORE', 'TIMEOUT'), fail='RESYNC')]
    sim = [cl.Config(n=3, slow=[(1, 3), (2, 3), (3, 3)], crash=1, restart=1, cut=1, sync=('LIST', 'TIMEOUT')),
           cl.Config(n=3, slow=[(3, 1), (3, 2)], crash=1, restart=1, sync=('TIMEOUT',))]
    rnd = [cl.Config(n=3, crash=1, restart=1, cut=2, sync=('LIST', 'TIMEOUT')),
           cl.Config(n=3, crash=1, restart=1, sync=('STRICT', 'TIMEOUT'), fail='RESYNC'),
           cl.Config(n=3, crash=2, restart=2, sync=('TIMEOUT',), fail='CONTINUE'),
           cl.Config(n=4, crash=1, restart=1, cut=1, sync=('LIST', 'TIMEOUT'))]
    if not q:
        rnd += [cl.Config(n=3, crash=2, restart=2, cut=1, core=(1, 2), sync=('CORE', 'TIMEOUT'), fail='RESYNC')]
    return cc.run('C08', tier, seed, [], TERMINAL, e1, ['TerminalC08', 'NoRefusedForever'], [], sim, rnd,
                  n_beh=48 if q else 400, beh_depth=150, n_rnd=40 if q else 400, rnd_steps=250,
                  e1_timeout=600 if q else 1500, inject=False, extra_scenarios=[conflict_scenarios, sequencing_runs, oneway_two_instances],
                  notes=['start/stop jobs are abstracted in Cluster.tla (the Master may be held in DISTRIBUTION); '
                         'job termination itself is C10'])
