"""C14 - placement obeys the starting strategy and the distribution rule."""
import json
import os
import sys

sys.path.insert(0, os.path.join(os.path.dirname(os.path.abspath(__file__)), '..', 'harness'))
import vlib
import placement_check as pk
from vlib import MachineryFailure

LABELS = ['C14.Choice']


def main(tier, seed, replay=None):
    v = vlib.Verdict('C14', tier, seed)
    if replay:
        with open(replay) as f:
            print(json.load(f))
        return 0
    pk.definition_selfcheck(v)
    recs = pk.collect(seed + 1000, 450 if tier == 'quick' else 6000)
    v.sample({k: x for k, x in recs[11].items() if k != '_res'})
    pk.judge(v, recs, LABELS)
    import c14_dist
    c14_dist.run(v, tier, seed)
    v.cov['distinct_nontrivial'] = pk.nontrivial(recs)
    v.cov['exhaustive'] = False
    v.cov['rule'] = ('seeded sample of the situation space x 6 strategies, each realised on real cores and judged by TLC '
                     'against the Choice definition (ties admitted where the documentation leaves them open); plus '
                     'SINGLE_INSTANCE / SINGLE_NODE scenarios')
    v.assumptions += ['the tie-break direction on the secondary key is not demanded',
                      'SINGLE_NODE: one node and per-process eligibility are demanded, not the optimal node']
    return v.finish()
