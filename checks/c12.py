"""C12 - all instances agree on where processes run, and that view is true.

E1: Replica.tla (records fed by the handshake snapshot and by the event stream, sender / receiver filters, crashes and
    restarts) model-checked by TLC: the current design satisfies TruthOrLost (a wrong record at quiescence is always
    explained by an event lost after the snapshot) and violates Truth (finding F4); the design with FixF4 satisfies
    Truth and Agreement.
E3: runs of a real 3-instance cluster with process activity (direct Supervisor starts / stops / exits), late joiners,
    crashes, restarts, one-way and two-way partitions, under seeded random schedulers and with one process event
    injected at every micro-step of a join; at every quiescent step TLC (ReplicaMon.tla) compares what every instance
    reports (get_all_process_info) with the Supervisor process tables, with the same ghost (lost) as the model.
"""
import json
import os
import random
import sys

sys.path.insert(0, os.path.join(os.path.dirname(os.path.abspath(__file__)), '..', 'harness'))
import vlib
import concil_lib as cl5
from vlib import MachineryFailure

PID = 'C12'
LABELS = {'C12.Truth', 'C12.Agreement', 'C16.NoInternalError'}


class Run(cl5.Scenario):
    """A scripted / randomly scheduled run. sc: strategy (USER), late (instances booted later: {name: micro-step}),
    events: list of [micro-step, action...] applied when the micro-step counter reaches it, steps (micro-steps),
    sched ('canonical' or a seed)."""

    def snapshot(self):
        s = super().snapshot()
        s['pend'] = sum(p.queue.qsize() for n in self.c.nodes if self.c.nodes[n].alive
                        for p in self.c.proxies(n).values())
        s['ev'] = self.cur_ev
        return s

    def proxy(self, src, dst):
        c = self.c
        self.cur_ev = 0
        p = c.proxies(src).get(dst)
        if p is not None and p.queue.qsize():
            kind, (source, body) = p.queue.queue[0]
            if kind.name == 'PUBLICATION' and body[0] == 1:
                ns = f'{body[1]["group"]}:{body[1]["name"]}'
                if ns in cl5.PROCS:
                    self.cur_ev = cl5.PROCS.index(ns) + 1
        self.d.proxy(src, dst)
        self.sync()
        self.cur_ev = 0

    def deliver_all(self):
        guard = 0
        while guard < 5000:
            guard += 1
            pend = sorted(self.c.pending())
            if not pend:
                break
            self.proxy(*pend[0])

    def act(self, a):
        if a[0] == 'boot':
            if not self.c.nodes[a[1]].alive:
                self.d.boot(a[1])
                self.sync()
        elif a[0] == 'restart':
            self.d.crash(a[1])
            self.sync()
            self.d.boot(a[1])
            self.sync()
        elif a[0] == 'cut1':
            self.d.cut(a[1], a[2])
            self.cuts = getattr(self, 'cuts', []) + [(a[1], a[2])]
            self.sync()
        else:
            burst = self.sc.get('burst')
            self.sc['burst'] = True        # never drain inside an action here: the scheduler decides
            try:
                super().act(a)
            finally:
                self.sc['burst'] = burst

    def run(self):
        sc, c, d = self.sc, self.c, self.d
        self.cur_ev = 0
        late = sc.get('late', {})
        for n in c.nodes:
            if n not in late:
                d.boot(n)
                self.sync()
        for _ in range(sc.get('pre_rounds', 8)):
            self.round()
        self.start_step = len(d.rec.steps)
        rnd = random.Random(sc['sched']) if sc.get('sched') != 'canonical' else None
        events = sorted(sc.get('events', []), key=lambda x: x[0])
        for n, at in late.items():
            events.append([at, 'boot', n])
        events.sort(key=lambda x: x[0])
        tick_order = list(c.nodes)
        micro = 0
        for micro in range(sc.get('steps', 120)):
            for e in [x for x in events if x[0] == micro]:
                self.act(e[1:])
            pend = sorted(c.pending())
            alive = [n for n in c.nodes if c.nodes[n].alive]
            if rnd is None:
                # canonical: serve everything pending, then the next tick in turn
                if pend:
                    self.proxy(*pend[0])
                else:
                    n = tick_order[0]
                    tick_order = tick_order[1:] + [n]
                    if c.nodes[n].alive:
                        d.tick(n)
                        self.sync()
                        self.behave()
            else:
                choices = [('p',) + pr for pr in pend] * 3 + [('t', n) for n in alive]
                ch = rnd.choice(choices)
                if ch[0] == 'p':
                    self.proxy(ch[1], ch[2])
                else:
                    d.tick(ch[1])
                    self.sync()
                    self.behave()
        # quiet fair tail: partitions healed, everything delivered
        for x, y in getattr(self, 'cuts', []):
            d.heal(x, y)
        self.cuts = []
        self.sync()
        for _ in range(sc.get('tail', 10)):
            self.round()
        return self.to_trace()

    def to_trace(self):
        tr = super().to_trace()
        for st, ex, rs in zip(tr['steps'], self.extra, self.d.rec.steps):
            st['pend'] = ex['pend']
            st['ev'] = ex['ev']
            st['d'] = int(rs['d'][1]) if rs.get('d') else 0
            st['k'] = rs.get('k', '') or ''
        tr['procs'] = cl5.PROCS
        return tr


ENV_ACTS = [['start', 'app:d1'], ['start', 'app:d1'], ['stop', 'app:d1'], ['exit', 'app:d1'], ['start', 'app:d2'],
            ['stop', 'app:d2'], ['start', 'unm:u1'], ['exit', 'unm:u1'], ['start', 'app:e1']]


def gen_random(rnd, k):
    sc = {'strategy': 'USER', 'sched': rnd.randrange(1 << 30), 'steps': 160, 'events': [], 'late': {}}
    if rnd.random() < 0.3:
        sc['auto_fence'] = True          # a lost instance is ISOLATED by the others (and never handshaken again)
    if rnd.random() < 0.5:
        sc['late'] = {rnd.choice(['n2', 'n3']): rnd.randrange(0, 60)}
    for _ in range(rnd.randrange(3, 9)):
        a = rnd.choice(ENV_ACTS)
        sc['events'].append([rnd.randrange(0, 150), a[0], rnd.choice(['n1', 'n2', 'n3']), a[1]])
    x = rnd.random()
    if x < 0.25:
        sc['events'].append([rnd.randrange(20, 100), 'restart', rnd.choice(['n2', 'n3'])])
    elif x < 0.4:
        sc['events'].append([rnd.randrange(20, 100), 'crash', rnd.choice(['n2', 'n3'])])
    elif x < 0.55:
        a, b = rnd.sample(['n1', 'n2', 'n3'], 2)
        sc['events'].append([rnd.randrange(20, 80), 'cut1', a, b])
    elif x < 0.65:
        a, b = rnd.sample(['n1', 'n2', 'n3'], 2)
        sc['events'].append([rnd.randrange(20, 80), 'cut', a, b])
    return sc


def join_sweep(tier):
    """One process event on a settled instance at every micro-step of a join (late boot or restart) of another one,
    canonical schedule: every phase of the handshake is hit."""
    out = []
    span = range(0, 46, 1 if tier != 'quick' else 3)
    for kind in ('late', 'restart'):
        for what in ('start', 'exit'):
            for k in span:
                sc = {'strategy': 'USER', 'sched': 'canonical', 'steps': 80, 'events': [], 'late': {}}
                if what == 'exit':
                    sc['events'].append([0, 'start', 'n2', 'app:d1'])
                    sc['pre_extra'] = True
                if kind == 'late':
                    sc['late'] = {'n3': 12}
                else:
                    sc['events'].append([12, 'restart', 'n3'])
                sc['events'].append([12 + k, what, 'n2', 'app:d1'])
                out.append(sc)
    return out


def fenced_loss(tier):
    """auto_fence: an instance is lost (and ISOLATED by the others) while processes run on it."""
    out = []
    for what, at in (('app:d1', 40), ('app:d1', 31), ('unm:u1', 40)):
        for sched in ('canonical', 7, 8):
            out.append({'strategy': 'USER', 'sched': sched, 'steps': 120, 'late': {}, 'auto_fence': True,
                        'events': [[20, 'start', 'n3', what], [22, 'start', 'n2', 'app:d2'], [at, 'crash', 'n3']]})
    return out


def run_scenarios(scs):
    traces = []
    for i, sc in enumerate(scs):
        s = Run(sc)
        try:
            tr = s.run()
        finally:
            s.close()
        tr['id'] = i
        traces.append(tr)
    return traces


def model_check(v, tier):
    sc = vlib.scratch()
    ev = 2 if tier == 'quick' else 3
    for fix, invs in (('FALSE', ['TypeOK', 'TruthOrLost']), ('TRUE', ['TypeOK', 'TruthOrLost', 'Truth', 'Agreement'])):
        cfg = os.path.join(sc, f'replica_{fix}.cfg')
        with open(cfg, 'w') as f:
            f.write(f'SPECIFICATION Spec\nCONSTANTS N = 2\n MaxEvents = {ev}\n MaxCrash = 1\n MaxRestart = 1\n'
                    f' FixF4 = {fix}\n' + ''.join(f'INVARIANT {i}\n' for i in invs))
        r = vlib.run_tlc('Replica', cfg, timeout=1500)
        v.add_tlc(f'Replica N=2 MaxEvents={ev} FixF4={fix}', r)
        if not r.ok:
            if r.violated:
                v.violation(f'design model Replica.tla (FixF4={fix}) violates {r.violated}', {'model': fix})
            else:
                raise MachineryFailure(f'Replica.tla: {r.error_text[:2000]}')
    # the model must exhibit F4 for the current design (Truth is NOT an invariant of it)
    cfg = os.path.join(sc, 'replica_f4.cfg')
    with open(cfg, 'w') as f:
        f.write('SPECIFICATION Spec\nCONSTANTS N = 2\n MaxEvents = 3\n MaxCrash = 0\n MaxRestart = 0\n FixF4 = FALSE\n'
                'INVARIANT Truth\n')
    r = vlib.run_tlc('Replica', cfg, timeout=600)
    v.add_tlc('Replica N=2 (Truth under the current design: counterexample expected = F4)', r)
    v.cov['model_exhibits_F4'] = bool(r.violated)
    if tier != 'quick':
        cfg = os.path.join(sc, 'replica_n3.cfg')
        with open(cfg, 'w') as f:
            f.write('SPECIFICATION Spec\nCONSTANTS N = 3\n MaxEvents = 3\n MaxCrash = 1\n MaxRestart = 1\n FixF4 = FALSE\n'
                    'INVARIANT TypeOK\nINVARIANT TruthOrLost\n')
        r = vlib.run_tlc('Replica', cfg, timeout=3000, simulate='num=12500', depth=60, seed=1)
        v.add_tlc('Replica N=3 simulate', r)
        if r.violated:
            v.violation(f'design model Replica.tla (N=3, simulation) violates {r.violated}', {'model': False})
        elif not r.ok and not r.timed_out:
            raise MachineryFailure(f'Replica.tla N=3 simulate: rc={r.rc} {r.error_text[:2000] or r.stdout[-1500:]}')


def judge(v, traces, scs, labels=None):
    labels = LABELS if labels is None else labels
    sc = vlib.scratch()
    path = os.path.join(sc, 'replica_traces.json')
    with open(path, 'w') as f:
        json.dump(traces, f)
    cfg = os.path.join(sc, 'replicamon.cfg')
    with open(cfg, 'w') as f:
        f.write('SPECIFICATION Spec\n')
    r = vlib.run_tlc('ReplicaMon', cfg, workers=8, env={'TRACE_FILE': path}, timeout=2400, heap='8g')
    if not r.ok:
        raise MachineryFailure(f'ReplicaMon: rc={r.rc} timed_out={r.timed_out} {r.error_text[:3000] or r.stdout[-1500:]}')
    done = {int(json.loads(l)[2:]) for l in r.stdout.splitlines() if l.startswith('"D ')}
    if done != {t['id'] for t in traces}:
        raise MachineryFailure(f'ReplicaMon: {len(done)} traces completed out of {len(traces)}')
    listed = {x['id']: x for x in vlib.known_for(PID)}
    seen_known = set()
    seen_viol = set()
    for f in sorted(vlib.tlc_prints(r.stdout, 'V '), key=lambda x: (x['t'], x['s'])):
        mine = sorted(x for x in f['f'] if x in labels)
        scn = scs[f['t']]
        if 'KNOWN.F4' in f['f'] and not mine and labels is LABELS:
            if 'F4' in listed:
                if f['t'] not in seen_known:
                    seen_known.add(f['t'])
                    v.known('F4', listed['F4']['what'])
            else:
                v.violation('signature F4 matched but it is not a listed finding', {'scenario': scn})
        if mine and (f['t'], tuple(mine)) not in seen_viol:
            seen_viol.add((f['t'], tuple(mine)))
            st = traces[f['t']]['steps'][f['s'] - 1]
            v.violation(f'{mine} at quiescent step {f["s"]}: truth={st["truth"]} run={st["run"]} views={st["views"]} '
                        f'inst={st["inst"]} errtxt={st["errtxt"][-200:]} scenario {json.dumps(scn)[:600]}',
                        {'scenario': scn, 'failed': mine, 'step': f['s']})
    q = sum(x['q'] for x in vlib.tlc_prints(r.stdout, 'Q '))
    v.cov['quiescent_steps_evaluated'] = v.cov.get('quiescent_steps_evaluated', 0) + q
    v.cov['lost_process_obligations'] = (v.cov.get('lost_process_obligations', 0)
                                         + sum(x.get('kn', 0) for x in vlib.tlc_prints(r.stdout, 'Q ')))
    v.cov['traces_validated_against_impl'] += len(traces)
    v.cov['evaluations'] += sum(len(t['steps']) for t in traces)


def main(tier, seed, replay=None):
    v = vlib.Verdict(PID, tier, seed)
    if replay:
        with open(replay) as f:
            scs = [json.load(f)['replay']['scenario']]
        judge(v, run_scenarios(scs), scs)
        return v.finish()
    rnd = random.Random(seed * 7919 + 12)
    model_check(v, tier)
    scs = join_sweep(tier) + fenced_loss(tier) + [gen_random(rnd, k) for k in range(80 if tier == 'quick' else 2000)]
    for lo in range(0, len(scs), 300):          # chunk by chunk: bounded memory in thorough runs
        part = scs[lo:lo + 300]
        judge(v, run_scenarios(part), part)
    v.cov['distinct_nontrivial'] = len({json.dumps(s, sort_keys=True) for s in scs})
    v.sample({'scenario': scs[-1]})
    v.cov['rule'] = ('one trace per scenario (join sweep position or seeded random script + scheduler seed); every '
                     'quiescent step of every trace is evaluated by ReplicaMon')
    v.assumptions += ['3 instances, conciliation_strategy USER (nothing is stopped automatically); process activity '
                      'through direct Supervisor calls and exits; a STOPPING copy may be listed or not',
                      'quiescence = all FIFOs empty, nobody CHECKING / CHECKED / FAILED anywhere, every live instance '
                      'sees every live instance RUNNING and serves the status XML-RPCs']
    return v.finish()
